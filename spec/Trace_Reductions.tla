-------------------------- MODULE Trace_Reductions --------------------------
(* Code -> spec binding for C06: every recorded call of collapse / bandpass / read_chan /   *)
(* dedisperse / compute_stats(_basic) on a real file (any gulp, any sub-range) is accepted   *)
(* only if its result - values AND length - equals the whole-array definition evaluated by   *)
(* TLC on the model stream.  Floats reach TLC as fixed-point integers (obs*q rounded).       *)
EXTENDS Reductions, Stream, TraceKit

VARIABLES tid, l
tvars == <<tid, l>>

H  == Traces[tid].hdr
Ev == Traces[tid].ev
D  == DataOf(H.files)
NB == H.nbits
C  == H.nchans
V  == IF NB = 32 THEN H.vals ELSE Values(D, NB)

HdrOK == /\ H.N = NSamples(D, C, NB)
         /\ (NB = 32 \/ H.vals = Values(D, NB))

InRange(e) == 0 <= e.start /\ e.nsamps >= 1 /\ e.start + e.nsamps <= H.N

(* q = fixed-point scale of the event; tolerance in units of 1/q *)
StatsOK(e) ==
  LET def == IF e.full THEN DefStats(V, C, e.start, e.nsamps) ELSE DefStatsBasic(V, C, e.start, e.nsamps) IN
  /\ Len(e.chans) = C
  /\ \A c \in 1..C :
       LET a == def[c]  o == e.chans[c] IN
       /\ o.count = a.n /\ o.mn = a.mn /\ o.mx = a.mx
       /\ Near(o.meanq, e.q, MeanR(a), 2 + a.mx \div 4096)
       /\ Near(o.varq, e.q, VarR(a), 3 + (a.mx * a.mx) \div 2048)
       /\ (e.full => /\ (A(a) = 0 \/ Near(o.kurtq, 64, KurtR(a), 3 + Abs(o.kurtq) \div 32))   \* constant channel: kurtosis only finite
                     /\ Abs(o.skewq - SkewQ64(a)) <= 2 + Abs(SkewQ64(a)) \div 24)

EvOK(e) ==
  /\ InRange(e)
  /\ e.outcome = "ok"
  /\ CASE e.op = "collapse" -> e.vals = DefCollapse(V, C, e.start, e.nsamps)
       [] e.op = "chan"     -> e.vals = DefChan(V, C, e.start, e.nsamps, e.ch)
       [] e.op = "dedisp"   -> e.vals = DefDedisp(V, C, e.start, e.nsamps, e.del)
       [] e.op = "bandpass" -> /\ Len(e.valsq) = C
                               /\ \A c \in 1..C : Near(e.valsq[c], e.q, <<DefBandSum(V, C, e.start, e.nsamps)[c], e.nsamps>>,
                                                       2 + e.valsq[c] \div 400000)
       [] e.op = "stats"    -> StatsOK(e)

TInit == tid \in 1..NT /\ l = 1 /\ MarkInit(tid)
TNext == /\ l <= Len(Ev)
         /\ IF l > 1 THEN TRUE ELSE IF HdrOK THEN TRUE
            ELSE Assert(FALSE, <<"trace header inconsistent with the model stream", tid>>)
         /\ Judge(tid, l, EvOK(Ev[l]))
         /\ l' = l + 1 /\ UNCHANGED tid /\ Mark(tid, l + 1)
TSpec == TInit /\ [][TNext]_tvars
=============================================================================
