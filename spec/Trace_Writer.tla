---------------------------- MODULE Trace_Writer ----------------------------
(* Code -> spec binding for C20.  One trace = one output file of one streaming call, with  *)
(* the bytes on disk recorded after EVERY FileWriter.write / cwrite.  Accepted only as a   *)
(* behaviour of the writer machine: header first and complete, append-only, every snapshot  *)
(* a prefix of the final file, complete when the call returns - and the library's own       *)
(* reader must recover from every snapshot, and from every byte-length truncation of the    *)
(* final file, exactly the first k complete samples of the final result.                    *)
EXTENDS Writer, Stream, TraceKit

VARIABLES tid, l, data     \* data: the data section currently on disk (after the header)
tvars == <<tid, l, data>>

H  == Traces[tid].hdr
Ev == Traces[tid].ev
SB == (H.nbits * H.nchans)            \* bits per sample

(* values of the first ns samples of the final file *)
FinalPrefix(ns) == SubSeq(H.final_vals, 1, ns * H.nchans)

ReopenOK(dl, ok, ns, vals) ==
  /\ ok
  /\ ns = ReopenCount(dl, H.nbits, H.nchans)
  /\ (H.final_isint /\ ns > 0) => vals = FinalPrefix(ns)

PrepHeader(e) ==     \* the first write is the complete header, nothing else
  /\ l = 1 /\ e.kind = "write" /\ e.size = H.hdrlen /\ e.hdr_same /\ e.data = <<>>
  /\ data' = <<>>

AppendData(e) ==     \* writes only add bytes at the end; the header is never touched again.  (Also the FIRST observed
                     \* write when a writer puts header and first block on disk together: the header is then complete.)
  /\ e.hdr_same
  /\ e.size = H.hdrlen + Len(e.data)
  /\ IsPrefixOf(data, e.data)
  /\ IsPrefixOf(e.data, H.final_data)
  /\ data' = e.data

Trunc(e) ==          \* a cut of the final file at hdrlen + cut bytes, re-opened by the library
  /\ e.cut >= 0 /\ e.cut <= Len(H.final_data)
  /\ ReopenOK(e.cut, e.ro_ok, e.ro_ns, e.ro_vals)
  /\ UNCHANGED data

Return(e) ==         \* when the call returns the file is already complete - and it is the result (where the harness supplies it:
                     \* sample extraction, whose result is the input slice itself), not merely a file consistent with itself
  /\ (H.expect_known => (H.final_isint /\ H.final_vals = H.expect))
  /\ e.size_at_return = H.hdrlen + Len(H.final_data)
  /\ data = H.final_data
  /\ UNCHANGED data

TInit == tid \in 1..NT /\ l = 1 /\ data = <<>> /\ MarkInit(tid)
TNext == /\ l <= Len(Ev)
         /\ LET e == Ev[l] IN
              \/ e.a = "w" /\ (PrepHeader(e) \/ AppendData(e)) /\ ReopenOK(Len(e.data), e.ro_ok, e.ro_ns, e.ro_vals)
              \/ e.a = "ret" /\ Return(e)
              \/ e.a = "cut" /\ Trunc(e)
         /\ l' = l + 1 /\ UNCHANGED tid /\ Mark(tid, l + 1)
TSpec == TInit /\ [][TNext]_tvars
=============================================================================
