--------------------------- MODULE Trace_ParKernels ---------------------------
(* Code -> spec binding for C19.                                                                     *)
(*  kind "access"  : the header carries the memory-access program RECORDED from the kernel's own     *)
(*                   Python definition (the very source numba compiles) run on a tiny shape with      *)
(*                   logging array proxies and a recording prange.  TLC checks Owned on it and         *)
(*                   explores EVERY interleaving of its iterations: the final memory must be that of    *)
(*                   the sequential order.                                                              *)
(*  kind "outcomes": events (kernel, threads, chunk size, repetition, digest) of the COMPILED kernel    *)
(*                   on exact-arithmetic inputs: every digest must equal the digest of the sequential   *)
(*                   evaluation of the Python definition.                                               *)
EXTENDS ParKernels, TraceKit

VARIABLES tid, l, pc, mem, reg
tvars == <<tid, l, pc, mem, reg>>
H  == Traces[tid].hdr
Ev == Traces[tid].ev
Prog == H.prog

TInit == /\ tid \in 1..NT /\ l = 1 /\ MarkInit(tid)
         /\ pc = [p \in 1..Len(Traces[tid].hdr.prog) |-> 1] /\ mem = Empty
         /\ reg = [p \in 1..Len(Traces[tid].hdr.prog) |-> <<>>]

(* access traces: interleave; the single event of the trace is consumed when an execution terminates *)
Done == \A p \in 1..Len(Prog) : pc[p] > Len(Prog[p])
StepIt(p) == /\ pc[p] <= Len(Prog[p])
             /\ LET e == Prog[p][pc[p]] IN
                /\ mem' = StepMem(mem, reg[p], p, pc[p], e)
                /\ reg' = [reg EXCEPT ![p] = StepReg(mem, reg[p], e)]
             /\ pc' = [pc EXCEPT ![p] = @ + 1]
             /\ UNCHANGED <<tid, l>>
Finish == /\ H.kind = "access" /\ Done /\ l = 1
          /\ Judge(tid, 1, mem = SeqResult(Prog) /\ Owned(Prog))
          /\ l' = 2 /\ Mark(tid, 2) /\ UNCHANGED <<tid, pc, mem, reg>>
Outcome == /\ H.kind = "outcomes" /\ l <= Len(Ev)
           /\ Judge(tid, l, Ev[l].digest = H.reference /\ Ev[l].outcome = "ok")
           /\ l' = l + 1 /\ Mark(tid, l + 1) /\ UNCHANGED <<tid, pc, mem, reg>>
TNext == (H.kind = "access" /\ \E p \in 1..Len(Prog) : StepIt(p)) \/ Finish \/ Outcome
TSpec == TInit /\ [][TNext]_tvars
=============================================================================
