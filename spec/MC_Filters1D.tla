---------------------------- MODULE MC_Filters1D ----------------------------
EXTENDS Filters1D, TLC
CONSTANTS MaxLen, MaxVal
VARIABLES x, w
vars == <<x, w>>
Init == x \in UNION {[1..n -> 0..MaxVal] : n \in 1..MaxLen} /\ w \in 1..(2 * MaxLen + 3)
Next == UNCHANGED vars
Spec == Init /\ [][Next]_vars
n == Len(x)
SameLength == Len(RunSum(x, w)) = n /\ Len(RunMed2(x, w)) = n
WidthOne == RunSum(x, 1) = x /\ RunMed2(x, 1) = [i \in 1..n |-> 2 * x[i]]
DecOne == DecSum1D(x, 1) = x
DecAll == DecSum1D(x, n) = <<SumSeq(x)>>
DropsRemainder == w <= n => Len(DecSum1D(x, w)) = n \div w
FlatIs2D == (n % 2 = 0 /\ n >= 2) =>
              LET A == Unflatten(x, 2, n \div 2) IN
              \A f2 \in 1..(n \div 2) : Flatten(DecSum2D(A, 1, f2)) = DecSum1D(x, f2) \/ (n \div 2) % f2 # 0
NormalEquations == n >= 2 => /\ SumSeq([i \in 1..n |-> DetNum(x, i - 1)]) = 0
                             /\ SumSeq([i \in 1..n |-> (i - 1) * DetNum(x, i - 1)]) = 0
ReflectInRange == \A j \in -(3 * n)..(3 * n) : Reflect(j, n) \in 0..(n - 1)
ReflectEdge == Reflect(-1, n) = 0 /\ Reflect(n, n) = n - 1
=============================================================================
