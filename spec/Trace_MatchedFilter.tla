------------------------- MODULE Trace_MatchedFilter -------------------------
(* Code -> spec binding for C13.  "mf" events: a MatchedFilter run (or a direct call of          *)
(* kernels.convolve_templates) on integer data standardised with loc = scale = "norm" (so the     *)
(* standardised data ARE the integers): every response convs[i][t] against Num/sqrt(Den) of       *)
(* MatchedFilter, the boxcar bank against the recurrence, S/N = maximum at the reported           *)
(* (template, bin), on-pulse window.  "inv" events: two runs on z and a*z+b (a > 0) with the       *)
(* default robust standardisation must agree in every response, S/N, peak bin and best template.  *)
EXTENDS MatchedFilter, Moments, TraceKit

VARIABLES tid, l
tvars == <<tid, l>>
Ev == Traces[tid].ev

RespQ(num, den, q) == IF den <= 0 THEN 0
                      ELSE IF den < 32000 THEN (num * q * 256) \div ISqrt(den * 65536)
                      ELSE (num * q) \div ISqrt(den)

MfOK(e) ==
  LET n == Len(e.z) IN
  /\ e.outcome = "ok"
  /\ Len(e.convq) = Len(e.bank)
  /\ (e.kind = "boxcar" =>
        /\ e.widths = BoxWidths(e.mx, e.fn, e.fd)
        /\ Len(e.bank) = Len(e.widths)
        /\ \A i \in 1..Len(e.bank) : e.bank[i].h = Ones(e.widths[i]) /\ e.bank[i].ref = 0)
  /\ (e.kind \in {"gaussian", "lorentzian"} =>          \* the reference bin is the template maximum
        \A i \in 1..Len(e.bank) : e.bank[i].h[e.bank[i].ref + 1] = MaxSeq(e.bank[i].h))
  /\ \A i \in 1..Len(e.bank) :
        /\ Len(e.convq[i]) = n
        /\ \A t \in 0..(n - 1) :
             LET ex == RespQ(RespNum(e.z, e.bank[i].h, e.bank[i].ref, t), RespDen(e.z, e.bank[i].h), e.q) IN
             Abs(e.convq[i][t + 1] - ex) <= e.tol + Abs(ex) \div e.reldiv
  /\ e.itemp \in 1..Len(e.bank) /\ e.peak \in 0..(n - 1)
  /\ e.snrq = e.convq[e.itemp][e.peak + 1]
  /\ \A i \in 1..Len(e.bank) : \A t \in 1..n : e.convq[i][t] <= e.snrq
  /\ (e.kind = "boxcar" /\ e.api = "MatchedFilter" => e.on = <<e.peak, Min(n, e.peak + e.widths[e.itemp])>>)

InvOK(e) ==
  /\ e.outcome = "ok"
  /\ Len(e.c1) = Len(e.c2)
  /\ \A i \in 1..Len(e.c1) : \A t \in 1..Len(e.c1[i]) : Abs(e.c1[i][t] - e.c2[i][t]) <= e.tol
  /\ Abs(e.snr1 - e.snr2) <= e.tol
  /\ (e.unique => e.peak1 = e.peak2 /\ e.itemp1 = e.itemp2)

EvOK(e) == IF e.a = "mf" THEN MfOK(e) ELSE InvOK(e)
TInit == tid \in 1..NT /\ l = 1 /\ MarkInit(tid)
TNext == /\ l <= Len(Ev)
         /\ Judge(tid, l, EvOK(Ev[l]))
         /\ l' = l + 1 /\ UNCHANGED tid /\ Mark(tid, l + 1)
TSpec == TInit /\ [][TNext]_tvars
=============================================================================
