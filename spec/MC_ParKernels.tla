---------------------------- MODULE MC_ParKernels ----------------------------
(* All interleavings of two built-in programs: "owner" - a bandpass accumulated by an outer loop    *)
(* over CHANNELS (each iteration read-modify-writes its own cell) - is deterministic; "wrong" - the  *)
(* same sums parallelised over SAMPLES (every iteration read-modify-writes every channel's cell) -   *)
(* loses updates and is refuted.                                                                     *)
EXTENDS ParKernels, TLC
CONSTANTS Which
VARIABLES pc, mem, reg
vars == <<pc, mem, reg>>
RMW(a, i, src) == << [k |-> "R", a |-> "in", i |-> src], [k |-> "R", a |-> a, i |-> i], [k |-> "W", a |-> a, i |-> i] >>
Owner == [c \in 1..3 |-> RMW("out", c, 10 + c) \o RMW("out", c, 20 + c)]          \* iteration = channel c, two samples
Wrong == [t \in 1..3 |-> RMW("out", 1, 10 * t + 1) \o RMW("out", 2, 10 * t + 2)]  \* iteration = sample t, two channels
Prog == IF Which = "owner" THEN Owner ELSE Wrong
Init == pc = [p \in 1..Len(Prog) |-> 1] /\ mem = Empty /\ reg = [p \in 1..Len(Prog) |-> <<>>]
Step(p) == /\ pc[p] <= Len(Prog[p])
           /\ LET e == Prog[p][pc[p]] IN
              /\ mem' = StepMem(mem, reg[p], p, pc[p], e)
              /\ reg' = [reg EXCEPT ![p] = StepReg(mem, reg[p], e)]
           /\ pc' = [pc EXCEPT ![p] = @ + 1]
Next == \E p \in 1..Len(Prog) : Step(p)
Spec == Init /\ [][Next]_vars
Done == \A p \in 1..Len(Prog) : pc[p] > Len(Prog[p])
Deterministic == Done => mem = SeqResult(Prog)
OwnedInv == Owned(Prog)
=============================================================================
