------------------------- MODULE Trace_SigprocCodec -------------------------
(* Code -> spec binding for C05.  Recorded events:                                          *)
(*   parse  : a header file (bytes) with what parse_header returned and what encode_header   *)
(*            made of that - must equal Parse / Enc of SigprocCodec;                         *)
(*   edit   : file bytes before, (key, new payload), outcome, file bytes after - must be one *)
(*            of the two outcomes C05 allows (EditRewrites | EditRaises);                    *)
(*   fields : physical fields of a Header before writing and after reading back, projected   *)
(*            to integers - frame, ids, angles in 0.01 arcsec, exact doubles as their 8 bytes.      *)
EXTENDS SigprocCodec, HeaderFields, TraceKit

VARIABLES tid, l
tvars == <<tid, l>>
Ev == Traces[tid].ev

ParseOK(e) ==
  LET p == Parse(e.file) IN
  /\ e.outcome = "ok" /\ p.ok
  /\ p.hdrlen = e.hdrlen
  /\ Len(e.items) = Len(p.items)
  /\ \A i \in 1..Len(p.items) : e.items[i].key = p.items[i].key /\ e.items[i].pay = p.items[i].pay
  /\ e.reenc = SubSeq(e.file, 1, p.hdrlen)                \* re-encoding reproduces the original header bytes
  /\ e.reenc = Enc(p.items)

EditOK(e) ==
  IF e.outcome = "ok"
  THEN e.key \in KeyNames /\ EditRewrites(e.before, e.after, e.key, e.pay)
  ELSE EditRaises(e.before, e.after)

FieldsOK(e) ==
  LET i == e.fin  o == e.fout IN
  /\ e.outcome = "ok"
  /\ o.frame = i.frame /\ o.frame \in Frames /\ FrameOf(Flags(i.frame)) = o.frame
  /\ o.telescope = i.telescope /\ o.backend = i.backend
  /\ o.ibeam = i.ibeam /\ o.nbeams = i.nbeams /\ o.nbits = i.nbits /\ o.nchans = i.nchans /\ o.nifs = i.nifs
  /\ o.source = i.source
  /\ Abs(o.dec_cas - i.dec_cas) <= 1 /\ Abs(o.ra_cas - i.ra_cas) <= 2          \* 0.01 arcsec (RA stored in time units: 0.015 arcsec)
  /\ Abs(o.az_udeg - i.az_udeg) <= 1 /\ Abs(o.za_udeg - i.za_udeg) <= 1
  /\ o.dbl = i.dbl                                          \* tsamp, tstart, fch1, foff, refdm: bit-identical doubles

EvOK(e) == CASE e.a = "parse" -> ParseOK(e) [] e.a = "edit" -> EditOK(e) [] e.a = "fields" -> FieldsOK(e)

TInit == tid \in 1..NT /\ l = 1 /\ MarkInit(tid)
TNext == /\ l <= Len(Ev)
         /\ Judge(tid, l, EvOK(Ev[l]))
         /\ l' = l + 1 /\ UNCHANGED tid /\ Mark(tid, l + 1)
TSpec == TInit /\ [][TNext]_tvars
=============================================================================
