-------------------------- MODULE MC_MatchedFilter --------------------------
(* On the DEFINITION: a noiseless boxcar of a width in the bank placed at any start t0 (edges       *)
(* included) has its unique maximum response at (its width, t0); adding a constant to the data       *)
(* leaves every response numerator unchanged; scaling the data by a > 0 scales it by a.              *)
EXTENDS MatchedFilter, TLC
CONSTANTS N, MaxW
VARIABLES w, t0, amp, b
vars == <<w, t0, amp, b>>
Bank == BoxWidths(MaxW, 3, 2)
Init == w \in Range(Bank) /\ t0 \in 0..(N - w) /\ amp \in {1, 5} /\ b \in {0, 3}
Next == UNCHANGED vars
Spec == Init /\ [][Next]_vars
Z == [i \in 1..N |-> b + (IF i - 1 >= t0 /\ i - 1 < t0 + w THEN amp ELSE 0)]
Num(ww, t) == RespNum(Z, Ones(ww), 0, t)
Den(ww) == RespDen(Z, Ones(ww))
PulseRecovered ==
  \A ww \in Range(Bank) : \A t \in 0..(N - 1) :
     (ww # w \/ t # t0) => /\ GeResp(Num(w, t0), Den(w), Num(ww, t), Den(ww))
                           /\ ~(Sq(Num(w, t0)) * Den(ww) = Sq(Num(ww, t)) * Den(w) /\ Num(ww, t) > 0)      \* strictly greater
OffsetFree == \A ww \in Range(Bank) : \A t \in 0..(N - 1) :
                 RespNum(Z, Ones(ww), 0, t) = RespNum([i \in 1..N |-> Z[i] + 7], Ones(ww), 0, t)
ScaleLinear == \A ww \in Range(Bank) : \A t \in 0..(N - 1) :
                 RespNum([i \in 1..N |-> 3 * Z[i]], Ones(ww), 0, t) = 3 * RespNum(Z, Ones(ww), 0, t)
BankOK == Bank[1] = 1 /\ \A i \in 1..(Len(Bank) - 1) : Bank[i + 1] > Bank[i] /\ Bank[i + 1] <= MaxW
=============================================================================
