INIT Init
NEXT Next
CONSTANTS
  MaxN = 6
  Variant = "fixed"
INVARIANT WitnessLargeSkipHonoured
