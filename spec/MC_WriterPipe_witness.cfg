SPECIFICATION Spec
CONSTANTS
  MaxN = 5
  Variant = "good"
  HLen = 2
  Wd = 2
INVARIANT WitnessCrashMid
