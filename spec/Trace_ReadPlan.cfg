SPECIFICATION TSpec
CONSTANTS
  MaxN = 100000
  Variant = "prop"
INVARIANT InRange
INVARIANT Whole
INVARIANT PrefixOK
INVARIANT RejectEarly
INVARIANT Exact
POSTCONDITION Report
CHECK_DEADLOCK FALSE
