--------------------------- MODULE PulseExtractor ---------------------------
(* Window arithmetic of sigpyproc.readers.PulseExtractor (specification growth beyond the listed     *)
(* properties).  Given a file of N samples, a pulse at sample toa of width w (samples) and a maximum   *)
(* dispersion delay md, the extractor returns a block of ns samples centred on the pulse, padded where  *)
(* the window leaves the file.  All quantities are integers.                                           *)
EXTENDS Util

TDec(w)            == Max(1, w \div 2)
DispDelay(md, w)   == md + 5 * w
BlockDelay(md, w)  == ((DispDelay(md, w) \div TDec(w)) + 1) * TDec(w)
NSamps(md, w, mn)  == Max(2 * BlockDelay(md, w), mn * TDec(w))
NStart(toa, md, w, mn)      == toa - NSamps(md, w, mn) \div 2
NStartFile(toa, md, w, mn)  == Max(0, NStart(toa, md, w, mn))
NSampsFile(N, toa, md, w, mn) == Min(NSamps(md, w, mn) + Min(0, NStart(toa, md, w, mn)), N - Max(0, NStart(toa, md, w, mn)))
PadOffset(toa, md, w, mn)   == Abs(Min(0, NStart(toa, md, w, mn)))
ToaInBlock(toa, md, w, mn)  == toa - NStart(toa, md, w, mn)

(* output sample k (0-based) comes from file sample NStart + k when that exists, else it is padding *)
Source(N, toa, md, w, mn, k) == LET f == NStart(toa, md, w, mn) + k IN IF f >= 0 /\ f < N THEN f ELSE -1
=============================================================================
