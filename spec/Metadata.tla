------------------------------ MODULE Metadata ------------------------------
(* What the header of a derived product must say (C08), in DIMENSIONLESS units so that no    *)
(* real arithmetic is needed:                                                                 *)
(*   - a frequency label is measured in input-channel units relative to the input's first     *)
(*     channel:  L = (f - fch1_in) / foff_in, so input channel c has label c;  the harness     *)
(*     reports 2000*L (milli-half-channels) for the output's first channel ("off2k") and      *)
(*     1000*foff_out/foff_in ("stepk");                                                        *)
(*   - tsamp as 1000*tsamp_out/tsamp_in ("tsk"); tstart as the advance in microseconds.       *)
(* Provenance comes from Transforms: which input channels feed output channel j.              *)
EXTENDS Util

(* input channels feeding output channel j (0-based), as <<first, last>> *)
Feeds(op, p, C, j) ==
  CASE op \in {"extract_samps", "mask", "zerodm", "requantize", "block_to_file", "read_block"} -> <<j + p.c0, j + p.c0>>
    [] op = "invert"        -> <<C - 1 - j, C - 1 - j>>
    [] op = "extract_chans" -> <<p.ch, p.ch>>
    [] op = "extract_bands" -> <<p.c0 + p.k * p.cps + j, p.c0 + p.k * p.cps + j>>
    [] op = "downsample"    -> <<j * p.ff, j * p.ff + p.ff - 1>>
    [] op = "subband"       -> <<j * (C \div p.nsub), j * (C \div p.nsub) + (C \div p.nsub) - 1>>

Copies(op) == op \notin {"downsample", "subband"}
OutChans(op, p, C) ==
  CASE op = "extract_chans" -> 1
    [] op = "extract_bands" -> p.cps
    [] op = "downsample"    -> C \div p.ff
    [] op = "subband"       -> p.nsub
    [] op = "read_block"    -> p.m
    [] OTHER -> C
SpacingFactor(op, p, C) ==          \* foff_out / foff_in
  CASE op = "invert" -> -1
    [] op = "downsample" -> p.ff
    [] op = "subband" -> C \div p.nsub
    [] OTHER -> 1

(* label of output channel j in milli-half-channels, from the reported header *)
LabelK(off2k, stepk, j) == off2k + 2 * stepk * j

(* the requirement on the labels: a copied channel carries exactly its source's label; a combined
   channel's label lies within the span of its sources; the spacing is scaled by the factor.
   tolk: rounding slack of the projection (2 = one thousandth of a channel) *)
LabelsOK(op, p, C, off2k, stepk, tolk) ==
  /\ (OutChans(op, p, C) > 1 => Abs(stepk - 1000 * SpacingFactor(op, p, C)) <= tolk)
  /\ \A j \in 0..(OutChans(op, p, C) - 1) :
        LET f == Feeds(op, p, C, j)
            (* with a single output channel the reported spacing is meaningless: only channel 0 is judged *)
            lab == IF OutChans(op, p, C) > 1 THEN LabelK(off2k, stepk, j) ELSE off2k IN
        /\ lab >= 2000 * f[1] - tolk
        /\ lab <= 2000 * f[2] + tolk

(* the "natural" header formulas; MC_Metadata checks that they meet the requirement *)
NatOff2k(op, p, C) ==
  CASE op = "invert" -> 2000 * (C - 1)
    [] op = "extract_chans" -> 2000 * p.ch
    [] op = "extract_bands" -> 2000 * (p.c0 + p.k * p.cps)
    [] op = "read_block" -> 2000 * p.c0
    [] op = "downsample" -> 1000 * (p.ff - 1)                 \* centre of the group
    [] op = "subband" -> 1000 * ((C \div p.nsub) - 1)
    [] OTHER -> 2000 * p.c0
NatStepk(op, p, C) == 1000 * SpacingFactor(op, p, C)
=============================================================================
