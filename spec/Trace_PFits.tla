------------------------------ MODULE Trace_PFits ------------------------------
(* Code -> spec binding for C18.  The header of a trace carries the storage of a synthesised PSRFITS  *)
(* file; events are reads made through PFITSReader.  "whole": the full read equals WholeVals;          *)
(* "block": read_block(start, n) equals the slice; "reduce": collapse / bandpass / read_chan /          *)
(* compute_stats over the reader equal the Reductions definitions on WholeVals (i.e. what a SIGPROC     *)
(* file holding the same samples gives); "header": plain numbers in SIGPROC units.                       *)
(* Coherence data carry the factor 1/sqrt(2): compared with the bracket 0.7071..0.7072.                 *)
EXTENDS PFits, Reductions, TraceKit

VARIABLES tid, l
tvars == <<tid, l>>
F  == Traces[tid].hdr
Ev == Traces[tid].ev
W  == WholeVals(F)
Q  == 16

(* observed fixed-point value (q = 16) against the integer model value v *)
Eq(obsq, v) == IF F.pol = "Coherence"
               THEN Abs(obsq * 10000 - v * 7071 * Q) <= 10000 + Abs(v) * 2 * Q
               ELSE obsq = v * Q
SeqEq(obsq, vals) == Len(obsq) = Len(vals) /\ \A i \in 1..Len(vals) : Eq(obsq[i], vals[i])

EvOK(e) ==
  /\ e.outcome = "ok"
  /\ CASE e.a = "whole"  -> e.nsamples = NSamp(F) /\ SeqEq(e.valsq, W)
       [] e.a = "block"  -> /\ e.shape = <<F.C, e.n>> /\ SeqEq(e.valsq, Slice(W, e.start * F.C, (e.start + e.n) * F.C))
                            /\ Abs(e.tstart_off_us - e.start * F.tbin_micro) <= 5           \* the block starts where it was asked to
       (* a block requested by first-channel frequency: m channels from (descending-order) channel c0, same samples *)
       [] e.a = "subblock" -> /\ e.shape = <<e.m, e.n>>
                              /\ SeqEq(e.valsq, [k \in 1..(e.n * e.m) |->
                                     W[(e.start + (k - 1) \div e.m) * F.C + e.c0 + ((k - 1) % e.m) + 1]])
       [] e.a = "reduce" ->
           (CASE e.op = "collapse" -> SeqEq(e.valsq, DefCollapse(W, F.C, e.start, e.n))
              [] e.op = "chan"     -> SeqEq(e.valsq, DefChan(W, F.C, e.start, e.n, e.ch))
              [] e.op = "bandpass" -> /\ Len(e.valsq) = F.C
                                      /\ \A c \in 1..F.C :
                                           LET s == DefBandSum(W, F.C, e.start, e.n)[c] IN
                                           IF F.pol = "Coherence"
                                           THEN Abs(e.valsq[c] * e.n * 10000 - s * 7071 * Q) <= e.n * 10000 + Abs(s) * 2 * Q
                                           ELSE Abs(e.valsq[c] * e.n - s * Q) <= e.n
              [] e.op = "stats"    -> /\ Len(e.chans) = F.C
                                      /\ \A c \in 1..F.C :
                                           LET a == DefStatsBasic(W, F.C, e.start, e.n)[c] IN
                                           /\ e.chans[c].count = a.n
                                           /\ Eq(e.chans[c].mnq, a.mn) /\ Eq(e.chans[c].mxq, a.mx))
       [] e.a = "header" -> /\ e.plain                                       \* every header quantity is a plain number
                            /\ e.nchans = F.C /\ e.nsamples = NSamp(F) /\ e.nbits = F.nbits
                            /\ e.fch1_milli = F.fhi_milli                     \* first channel = highest frequency, in MHz
                            /\ e.foff_milli = -F.df_milli                     \* descending: negative channel width, in MHz
                            /\ e.tsamp_micro = F.tbin_micro                   \* seconds
                            /\ Abs(e.tstart_off_us - F.stt_offs_us) <= 5      \* MJD = STT_IMJD + (STT_SMJD + STT_OFFS)/86400

TInit == tid \in 1..NT /\ l = 1 /\ MarkInit(tid)
TNext == /\ l <= Len(Ev)
         /\ Judge(tid, l, EvOK(Ev[l]))
         /\ l' = l + 1 /\ UNCHANGED tid /\ Mark(tid, l + 1)
TSpec == TInit /\ [][TNext]_tvars
=============================================================================
