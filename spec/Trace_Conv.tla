------------------------------ MODULE Trace_Conv ------------------------------
(* Code -> spec binding for C12.  Inputs are integer sequences; float outputs arrive in fixed    *)
(* point (value * q, rounded).  Exact clauses: transform length = GoodSize, number of bins,       *)
(* forward+inverse = zero-padded input, full linear convolution, full correlation, Parseval,      *)
(* DC / Nyquist / quarter-rate bins.  Every bin is additionally compared with the in-spec          *)
(* fixed-point DFT (tolerance 2^-11 * sum|x| + quantisation), and the amplitude spectrum with the   *)
(* modulus of the bins the code itself produced.                                                    *)
EXTENDS Conv, Moments, TraceKit

VARIABLES tid, l
tvars == <<tid, l>>
Ev == Traces[tid].ev

AbsSum(x) == SumSeq([i \in 1..Len(x) |-> Abs(x[i])])
SeqNearInt(outq, q, ints, tol) == Len(outq) = Len(ints) /\ \A i \in 1..Len(ints) : Abs(outq[i] - ints[i] * q) <= tol

RfftOK(e) ==
  LET m == GoodSize(Len(e.x))
      xp == ZeroPad(e.x, m)
      asum == AbsSum(e.x)
      tolx == 2 + asum \div 4096                         \* float32 FFT error on the exact clauses (in units of 1/q)
      told == 2 + (asum * e.q) \div 2048                 \* fixed-point DFT: 2^-11 * sum|x|
  IN /\ e.m = m /\ e.nbins = (m \div 2) + 1 /\ Len(e.re) = e.nbins /\ Len(e.im) = e.nbins
     /\ Abs(e.re[1] - DC(xp) * e.q) <= tolx /\ Abs(e.im[1]) <= tolx
     /\ (m % 2 = 0 => Abs(e.re[e.nbins] - Nyquist(xp) * e.q) <= tolx /\ Abs(e.im[e.nbins]) <= tolx)
     /\ (m % 4 = 0 => Abs(e.re[(m \div 4) + 1] - QuarterRe(xp) * e.q) <= tolx /\ Abs(e.im[(m \div 4) + 1] - QuarterIm(xp) * e.q) <= tolx)
     /\ \A k \in 0..(e.nbins - 1) :
           LET d == DftS(e.x, m, k) IN
           /\ Abs(e.re[k + 1] - (d[1] * e.q) \div S) <= told
           /\ Abs(e.im[k + 1] - (d[2] * e.q) \div S) <= told
     (* Parseval with Hermitian weights: |X_0|^2 + 2 sum |X_k|^2 (+ |X_{m/2}|^2) = m * sum x^2, the harness reports the
        weighted sum of squares of the float bins, scaled by q *)
     /\ Abs(e.parsq - m * Energy(e.x) * e.q) <= 2 + (m * Energy(e.x)) \div 2048

EvOK(e) ==
  /\ e.outcome = "ok"
  /\ CASE e.f = "rfft"      -> RfftOK(e)
       [] e.f = "roundtrip" -> /\ e.nhdr = GoodSize(Len(e.x))
                               /\ SeqNearInt(e.outq, e.q, ZeroPad(e.x, GoodSize(Len(e.x))), 2 + AbsSum(e.x) \div 4096)
       [] e.f = "conv"      -> SeqNearInt(e.outq, e.q, LinConv(e.x, e.y), 2 + (AbsSum(e.x) * AbsSum(e.y)) \div 65536)
       [] e.f = "correlate" -> /\ e.nhdr = Len(e.x) + Len(e.y) - 1
                               /\ SeqNearInt(e.outq, e.q, Correlate(e.x, e.y), 2 + (AbsSum(e.x) * AbsSum(e.y)) \div 65536)
       [] e.f = "mspec"     -> /\ Len(e.outq) = Len(e.re)
                               /\ \A k \in 1..Len(e.re) : Abs(e.outq[k] - ISqrt(e.re[k] * e.re[k] + e.im[k] * e.im[k])) <= 3

TInit == tid \in 1..NT /\ l = 1 /\ MarkInit(tid)
TNext == /\ l <= Len(Ev)
         /\ Judge(tid, l, EvOK(Ev[l]))
         /\ l' = l + 1 /\ UNCHANGED tid /\ Mark(tid, l + 1)
TSpec == TInit /\ [][TNext]_tvars
=============================================================================
