SPECIFICATION Spec
CONSTANTS
  NBins = 5
  NInts = 2
  NBands = 2
  NDM = 3
  NP = 3
  Variant = "intended"
INVARIANT HistoryFree
INVARIANT Return
PROPERTY Idempotent
