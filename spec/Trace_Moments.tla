---------------------------- MODULE Trace_Moments ----------------------------
(* Code -> spec binding for C10.  A trace is a history over up to three real ChannelStats      *)
(* objects: push(k, chunk) and merge(a, b -> c); after EVERY step the object's observable       *)
(* state is logged (count, min, max exactly; mean, var, skew, kurtosis and the raw central       *)
(* sums in fixed point, mapped back to the base integer stream when the data are an affine       *)
(* image a*v+b of it).  TLC keeps the abstract accumulators (power sums) and accepts a step only *)
(* if every observed field matches the value derived from them.                                  *)
EXTENDS Moments, TraceKit

VARIABLES tid, l, accs        \* accs[k][c]: abstract accumulator k, channel c
tvars == <<tid, l, accs>>
H  == Traces[tid].hdr
Ev == Traces[tid].ev
C  == H.nchans

ObsOK(a, o, e) ==
  /\ o.finite
  /\ o.count = a.n /\ o.mn = a.mn /\ o.mx = a.mx
  /\ Near(o.meanq, e.q, MeanR(a), e.tolmean)
  (* variance: over the WHOLE declared stream it is M2/n.  While the stream is still being fed (a.n < declared nsamps) C10 does
     not say which count normalises the running value: the declared length (the pinned implementation) or the samples so far *)
  /\ \/ Near(o.varq, e.q, <<A(a), e.nsamps * a.n>>, e.tolvar)
     \/ (a.n # e.nsamps /\ Near(o.varq, e.q, <<A(a), a.n * a.n>>, e.tolvar))
  /\ (A(a) = 0 => (o.varq = 0 /\ o.skewq = 0))                       \* constant channel: zero variance and skewness
  /\ (e.full /\ A(a) > 0 /\ e.nsamps = a.n) =>
        /\ Abs(o.skewq - SkewQ64(a)) <= e.tolskew + Abs(SkewQ64(a)) \div 16
        /\ Near(o.kurtq, 64, KurtR(a), e.tolkurt + Abs(o.kurtq) \div 16)

Col(chunk, c) == [i \in 1..Len(chunk) |-> chunk[i][c]]

TPush(e) ==
  /\ accs' = [accs EXCEPT ![e.k] = [c \in 1..C |-> Push(accs[e.k][c], Col(e.chunk, c))]]
  /\ \A c \in 1..C : ObsOK(accs'[e.k][c], e.obs[c], e)

TMerge(e) ==
  /\ accs' = [accs EXCEPT ![e.k] = [c \in 1..C |-> Merge(accs[e.ka][c], accs[e.kb][c])]]
  /\ \A c \in 1..C : ObsOK(accs'[e.k][c], e.obs[c], e)

TInit == tid \in 1..NT /\ l = 1 /\ MarkInit(tid)
         /\ accs = [k \in 1..3 |-> [c \in 1..Traces[tid].hdr.nchans |-> Empty]]
TNext == /\ l <= Len(Ev)
         /\ LET e == Ev[l] IN (e.a = "push" /\ TPush(e)) \/ (e.a = "merge" /\ TMerge(e))
         /\ l' = l + 1 /\ UNCHANGED tid /\ Mark(tid, l + 1)
TSpec == TInit /\ [][TNext]_tvars
=============================================================================
