SPECIFICATION Spec
CONSTANTS
  MaxN = 6
  MaxC = 2
  MaxDelay = 2
INVARIANT WitnessSmallGulpDedisp
