SPECIFICATION Spec
CONSTANTS
  MaxLen = 6
  MaxVal = 3
INVARIANT ChunkingFree
INVARIANT MergeFree
INVARIANT Constant
INVARIANT NonNegVar
