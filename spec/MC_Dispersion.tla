---------------------------- MODULE MC_Dispersion ----------------------------
(* Checks on the DEFINITION of the law over a grid of small-rational bands, DMs of either   *)
(* sign and all reference choices; and of the index maps over all delay vectors in the bound *)
(* (provenance data: X[c][t] = <<c, t>>).                                                    *)
EXTENDS Dispersion, TLC
CONSTANTS MaxC, MaxN, MaxDel, Mode     \* Mode "law": the band/DM grid; "maps": the delay-vector grid
VARIABLES fch1, foff, nch, p, r, qn, qd, kind, del, n
vars == <<fch1, foff, nch, p, r, qn, qd, kind, del, n>>

Init == IF Mode = "law"
        THEN /\ fch1 \in {6, 8, 12, 16} /\ foff \in {-2, -1, 1} /\ nch \in 2..MaxC
             /\ fch1 + (nch - 1) * foff >= 3
             /\ p \in {-7, -2, -1, 0, 1, 2, 3, 7} /\ r \in {1, 5, 10} /\ qn \in {1, 2} /\ qd \in {1, 2}
             /\ kind \in {"ch1", "max", "min", "center"}
             /\ n = 2 /\ del = [c \in 1..nch |-> 0]
        ELSE /\ fch1 = 8 /\ foff = -1 /\ nch \in 2..MaxC /\ p = 1 /\ r = 5 /\ qn = 1 /\ qd = 1 /\ kind = "ch1"
             /\ n \in 2..MaxN /\ del \in [1..nch -> -MaxDel..MaxDel]
Next == UNCHANGED vars
Spec == Init /\ [][Next]_vars

F2(c) == Chan2(fch1, foff, c)
R2 == Ref2(kind, fch1, foff, nch)
DS(c, pp) == DelaySet(F2(c), R2, pp, r, qn, qd)
OneOf(S) == CHOOSE x \in S : TRUE

ZeroAtRef == \A c \in 0..(nch - 1) : F2(c) = R2 => DS(c, p) = {0}
Antisym   == \A c \in 0..(nch - 1) : DS(c, -p) = {-x : x \in DS(c, p)}
Monotone  == p > 0 => \A c, d \in 0..(nch - 1) : F2(c) < F2(d) => \A x \in DS(c, p), y \in DS(d, p) : x >= y - 1
AtMostTwo == \A c \in 0..(nch - 1) : Cardinality(DS(c, p)) <= 2
(* delay DIFFERENCES between channels do not depend on the reference (up to the rounding of each) *)
RefFree   == \A c, d \in 0..(nch - 1) :
               LET a == OneOf(DelaySet(F2(c), R2, p, r, qn, qd)) - OneOf(DelaySet(F2(d), R2, p, r, qn, qd))
                   b == OneOf(DelaySet(F2(c), 2 * fch1, p, r, qn, qd)) - OneOf(DelaySet(F2(d), 2 * fch1, p, r, qn, qd))
               IN Abs(a - b) <= 2

X == [c \in 1..nch |-> [t \in 1..n |-> <<c, t>>]]
RollBack   == Roll(Roll(X, del), [c \in 1..nch |-> -del[c]]) = X
NonNeg     == \A c \in 1..nch : del[c] >= 0
AgreeOnSupport ==          \* with non-negative delays the paths agree wherever they are all defined
  (NonNeg /\ MaxSeq(del) < n) =>
     /\ \A c \in 1..nch : \A t \in 1..(n - MaxSeq(del)) : Roll(X, del)[c][t] = RollValid(X, del)[c][t]
     /\ \A c \in 1..nch : \A t \in 1..(n - MaxSeq(del)) : ReadDD(X, 0, n - MaxSeq(del), del)[c][t] = RollValid(X, del)[c][t]
     /\ ValidLen(X, del) = n - MaxSeq(del)
PulseRestored ==           \* a pulse placed at t0 + del[c] in every channel lands in the single column t0
  (NonNeg /\ MaxSeq(del) < n) =>
     \A c \in 1..nch : RollValid(X, del)[c][1] = <<c, 1 + del[c]>>
=============================================================================
