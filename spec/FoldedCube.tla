----------------------------- MODULE FoldedCube -----------------------------
(* Re-tuning a folded cube (FoldedData.update_dm / update_period) - C17.                      *)
(* Abstract state: the current (dm, period) targets and rot[i][j], the total rotation (in bins, *)
(* mod NBins) that has been applied to the profile of sub-integration i and sub-band j since    *)
(* folding.  ShiftDM[d][j] / ShiftP[p][i] give the rotation a target IMPLIES relative to the     *)
(* folding values (index 1 of each alphabet is the folding value, whose shift is zero).          *)
(* Variant "intended": rot is a function of the targets.  Variant "pinned": the bookkeeping of   *)
(* the pinned commit - the new target is measured against the OVERWRITTEN current value while     *)
(* the register holds the shift accumulated since folding - kept as a negative control.           *)
EXTENDS Util

CONSTANTS NBins, NInts, NBands, NDM, NP, Variant
(* linear toy shift laws for the model: band j is delayed j bins per DM step, sub-integration i drifts
   i bins per period step; what matters is that they are functions of the DIFFERENCE of targets *)
DShift(delta) == [j \in 1..NBands |-> delta * (j - 1)]
PShift(delta) == [i \in 1..NInts |-> delta * (i - 1)]

VARIABLES dm, period, rot, fph, tph
vars == <<dm, period, rot, fph, tph>>

Mod(x) == x % NBins
Init == /\ dm = 1 /\ period = 1
        /\ rot = [i \in 1..NInts |-> [j \in 1..NBands |-> 0]]
        /\ fph = [j \in 1..NBands |-> 0] /\ tph = [i \in 1..NInts |-> 0]

UpdateDM(d) ==
  LET drifts == IF Variant = "pinned" THEN DShift(d - dm) ELSE DShift(d - 1)      \* pinned: relative to the CURRENT dm
      step   == IF Variant = "pinned" /\ d = dm THEN [j \in 1..NBands |-> -fph[j]] ELSE [j \in 1..NBands |-> drifts[j] - fph[j]]
  IN /\ rot' = [i \in 1..NInts |-> [j \in 1..NBands |-> Mod(rot[i][j] + step[j])]]
     /\ fph' = IF Variant = "pinned" /\ d = dm THEN [j \in 1..NBands |-> 0] ELSE drifts
     /\ dm' = d /\ UNCHANGED <<period, tph>>

UpdatePeriod(q) ==
  LET drifts == IF Variant = "pinned" THEN PShift(q - period) ELSE PShift(q - 1)
      step   == IF Variant = "pinned" /\ q = period THEN [i \in 1..NInts |-> -tph[i]] ELSE [i \in 1..NInts |-> drifts[i] - tph[i]]
  IN /\ rot' = [i \in 1..NInts |-> [j \in 1..NBands |-> Mod(rot[i][j] + step[i])]]
     /\ tph' = IF Variant = "pinned" /\ q = period THEN [i \in 1..NInts |-> 0] ELSE drifts
     /\ period' = q /\ UNCHANGED <<dm, fph>>

Next == (\E d \in 1..NDM : UpdateDM(d)) \/ (\E q \in 1..NP : UpdatePeriod(q))
Spec == Init /\ [][Next]_vars

Implied(d, q) == [i \in 1..NInts |-> [j \in 1..NBands |-> Mod(DShift(d - 1)[j] + PShift(q - 1)[i])]]
HistoryFree == rot = Implied(dm, period)
Return      == (dm = 1 /\ period = 1) => \A i \in 1..NInts : \A j \in 1..NBands : rot[i][j] = 0
Idempotent  == [][\A d \in 1..NDM : (UpdateDM(d) /\ d = dm) => rot' = rot]_vars
=============================================================================
