-------------------------------- MODULE Conv --------------------------------
(* FFT-based operations and their direct time-domain definitions (C12), on integer sequences.    *)
(* TLA+ has no reals: every clause that can be stated exactly is (zero padding, transform        *)
(* length, full linear convolution, full correlation, Parseval's identity, the DC / Nyquist /     *)
(* quarter-rate Fourier bins); the remaining bins of "equals the discrete Fourier sum" are        *)
(* compared with an IN-SPEC fixed-point DFT whose twiddles come from an octant reduction and a     *)
(* Taylor polynomial evaluated in integers (scale S = 2^14, absolute error < 2^-12).               *)
EXTENDS Util

RECURSIVE Strip(_, _)
Strip(n, p) == IF n % p = 0 THEN Strip(n \div p, p) ELSE n
Smooth5(n) == Strip(Strip(Strip(n, 2), 3), 5) = 1
RECURSIVE GoodSize(_)
GoodSize(n) == IF Smooth5(n) THEN n ELSE GoodSize(n + 1)          \* least 2^a 3^b 5^c >= n (real transforms)

ZeroPad(x, m) == [i \in 1..m |-> IF i <= Len(x) THEN x[i] ELSE 0]
LinConv(a, b) == [k \in 1..(Len(a) + Len(b) - 1) |->
                    SumSeq([j \in 1..Len(a) |-> IF k - j + 1 >= 1 /\ k - j + 1 <= Len(b) THEN a[j] * b[k - j + 1] ELSE 0])]
(* full cross-correlation of x (length n) with y (length m): lags -(m-1) .. n-1, out[k] = sum_j x[j + lag] * y[j] *)
Correlate(x, y) == [k \in 1..(Len(x) + Len(y) - 1) |->
                      LET lag == k - Len(y) IN
                      SumSeq([j \in 1..Len(y) |-> IF j + lag >= 1 /\ j + lag <= Len(x) THEN x[j + lag] * y[j] ELSE 0])]
Energy(x) == SumSeq([i \in 1..Len(x) |-> x[i] * x[i]])

(* ---- exact Fourier bins of a real sequence of even / multiple-of-4 length --------------------- *)
DC(x)      == SumSeq(x)
Nyquist(x) == SumSeq([t \in 1..Len(x) |-> IF (t - 1) % 2 = 0 THEN x[t] ELSE -x[t]])
QuarterRe(x) == SumSeq([t \in 1..Len(x) |-> IF (t - 1) % 4 = 0 THEN x[t] ELSE IF (t - 1) % 4 = 2 THEN -x[t] ELSE 0])
QuarterIm(x) == SumSeq([t \in 1..Len(x) |-> IF (t - 1) % 4 = 1 THEN -x[t] ELSE IF (t - 1) % 4 = 3 THEN x[t] ELSE 0])   \* e^{-i theta}

(* ---- fixed-point trigonometry: cos, sin of 2*pi*j/m, scaled by S --------------------------------- *)
S == 16384
(* phi = (u / m) * (pi / 4), 0 <= u <= m, in units of 1/S, with pi ~ 355/113 *)
PhiS(u, m) == (u * 355 * S) \div (4 * m * 113)
Mul(a, b) == (a * b) \div S
CosP(p) == LET p2 == Mul(p, p) p4 == Mul(p2, p2) p6 == Mul(p4, p2) IN S - p2 \div 2 + p4 \div 24 - p6 \div 720
SinP(p) == LET p2 == Mul(p, p) p3 == Mul(p2, p) p5 == Mul(p3, p2) p7 == Mul(p5, p2) IN p - p3 \div 6 + p5 \div 120 - p7 \div 5040
(* octant reduction: a = j/m of a turn; o = floor(8a); u = 8j - o*m in 0..m *)
TrigS(j, m) ==        \* <<cos, sin>> of 2*pi*(j mod m)/m, scaled by S
  LET jj == j % m
      o  == (8 * jj) \div m
      u  == 8 * jj - o * m
      c0 == CosP(PhiS(u, m))      s0 == SinP(PhiS(u, m))          \* angle u*pi/(4m) above the octant start
      c1 == CosP(PhiS(m - u, m))  s1 == SinP(PhiS(m - u, m))      \* complement to the octant end
  IN CASE o = 0 -> <<c0, s0>>
       [] o = 1 -> <<s1, c1>>
       [] o = 2 -> <<-s0, c0>>
       [] o = 3 -> <<-c1, s1>>
       [] o = 4 -> <<-c0, -s0>>
       [] o = 5 -> <<-s1, -c1>>
       [] o = 6 -> <<s0, -c0>>
       [] o = 7 -> <<c1, -s1>>
(* bin k (0-based) of the length-m DFT of x zero-padded to m:  X_k = sum_t x_t e^{-2 pi i k t / m}, scaled by S *)
DftS(x, m, k) ==
  << SumSeq([t \in 1..Len(x) |-> x[t] * TrigS(k * (t - 1), m)[1]]),
     -SumSeq([t \in 1..Len(x) |-> x[t] * TrigS(k * (t - 1), m)[2]]) >>
=============================================================================
