------------------------------ MODULE RFIMask ------------------------------
(* RFI channel masks (sigpyproc.core.rfi.RFIMask, Filterbank.clean_rfi) - C16.               *)
(* State: four Boolean vectors user, stats, custom, chan over C channels.  Actions:           *)
(*   ApplyRanges(L) : user  := channels whose label lies in a closed range of L               *)
(*   ApplyMethod(m) : stats := Out_m(var) \/ Out_m(skew) \/ Out_m(kurt)                        *)
(*   ApplyFuncn(g)  : custom := g(chan)                                                       *)
(* each followed by chan := chan \/ (its mask).  Statistics are integer vectors; labels are    *)
(* integers (driver units); thresholds are rationals tn/td.  The outlier predicates are        *)
(* written exactly, with the normalising constants BRACKETED in 1e-4:  a channel whose score   *)
(* falls between the brackets may be either (OutMay \ OutMust), all others are determined.     *)
EXTENDS Util

Med2(xs) == LET s == SortSeq(xs) n == Len(xs) IN                     \* 2 * median
            IF n % 2 = 1 THEN 2 * s[(n + 1) \div 2] ELSE s[n \div 2] + s[(n \div 2) + 1]
SelectSeq2(xs, P(_)) == LET RECURSIVE F(_)
                             F(i) == IF i > Len(xs) THEN <<>> ELSE (IF P(xs[i]) THEN <<xs[i]>> ELSE <<>>) \o F(i + 1)
                        IN F(1)

(* ---- "mad": |x - median| / doubleMAD(x) > T ; doubleMAD = median |x - med| over the side of x, / 0.67449,
        falling back to mean |x - med| / sqrt(2/pi) over that side when the MAD is 0, and to 1 when that is 0 too *)
SideDiffs2(xs, left) ==            \* |2x - med2| over the elements on that side (elements equal to the median are on both)
  LET m2 == Med2(xs) IN
  SelectSeq2([i \in 1..Len(xs) |-> IF (left /\ 2 * xs[i] <= m2) \/ (~left /\ 2 * xs[i] >= m2) THEN Abs(2 * xs[i] - m2) ELSE -1],
             LAMBDA v : v >= 0)
(* decision  |d|/scale > T  with scale = mad/norm  <=>  |d| * norm > T * mad.   d2 = 2|d|, mad4 = 4*mad *)
MadTest(xs, i, tn, td, normk) ==        \* normk = norm * 10^4 (lower or upper bracket)
  LET m2 == Med2(xs)
      d2 == Abs(2 * xs[i] - m2)
      left == 2 * xs[i] < m2
      sd == SideDiffs2(xs, left)
      mad4 == Med2(sd)                 \* 2 * median of doubled diffs
      sum2 == SumSeq(sd) IN
  IF mad4 > 0 THEN d2 * 2 * normk * td > tn * mad4 * 10000
  ELSE IF sum2 > 0 THEN             \* fallback: mean|d| / 0.79788  (sqrt(2/pi)); d > T * mean / 0.7979 <=> d2 * n * 0.7979 > T * sum2
       d2 * Len(sd) * (IF normk >= 6745 THEN 7979 ELSE 7978) * td > tn * sum2 * 10000
  ELSE d2 * td > 2 * tn               \* unit scale
OutMadMust(xs, tn, td) == {i \in 1..Len(xs) : MadTest(xs, i, tn, td, 6744)}
OutMadMay(xs, tn, td)  == {i \in 1..Len(xs) : MadTest(xs, i, tn, td, 6745)}

(* ---- "iqrm": for every lag k in -R..R, k # 0: d_k[c] = x[c] - x[clamp(c+k)]; z = (d - median(d)) / (IQR(d)/1.349);
        flagged if |z| > T for some lag.  Percentiles by linear interpolation (numpy default). *)
Clamp(c, n) == IF c < 1 THEN 1 ELSE IF c > n THEN n ELSE c
Lagged(xs, k) == [c \in 1..Len(xs) |-> xs[c] - xs[Clamp(c + k, Len(xs))]]
Perc4(s, q) == LET n == Len(s)  pos == (n - 1) * q  i == pos \div 4  f == pos % 4 IN    \* 4 * percentile(25*q), s sorted
               4 * s[i + 1] + (IF f = 0 THEN 0 ELSE f * (s[i + 2] - s[i + 1]))
IqrTest(ds, i, tn, td, normk) ==       \* normk = 1.349 * 10^4 bracket
  LET s == SortSeq(ds)
      iqr4 == Perc4(s, 3) - Perc4(s, 1)
      d2 == Abs(2 * ds[i] - Med2(ds)) IN
  IF iqr4 > 0 THEN d2 * 2 * normk * td > tn * iqr4 * 10000 ELSE d2 * td > 2 * tn
OutIqrm(xs, tn, td, R, normk) == {i \in 1..Len(xs) : \E k \in ((-R)..R) \ {0} : IqrTest(Lagged(xs, k), i, tn, td, normk)}
OutIqrmMust(xs, tn, td, R) == OutIqrm(xs, tn, td, R, 13489)
OutIqrmMay(xs, tn, td, R)  == OutIqrm(xs, tn, td, R, 13490)

OutMust(m, xs, tn, td) == IF m = "mad" THEN OutMadMust(xs, tn, td) ELSE OutIqrmMust(xs, tn, td, 5)
OutMay(m, xs, tn, td)  == IF m = "mad" THEN OutMadMay(xs, tn, td) ELSE OutIqrmMay(xs, tn, td, 5)

(* ---- the other two masks ---- *)
InRanges(label, L) == \E r \in 1..Len(L) : L[r][1] <= label /\ label <= L[r][2]
UserMask(labels, L) == {c \in 1..Len(labels) : InRanges(labels[c], L)}
(* a small family of custom functions of the current channel mask *)
Custom(g, chan, C) ==
  CASE g = "none"   -> {}
    [] g = "first"  -> {1}
    [] g = "dilate" -> {c \in 1..C : (c - 1) \in chan \/ (c + 1) \in chan}
    [] g = "all"    -> 1..C
=============================================================================
