------------------------- MODULE Trace_PulseExtractor -------------------------
(* Binds PulseExtractor.tla to sigpyproc.readers.PulseExtractor: for recorded extractions on real    *)
(* files, the window quantities and the placement of every file sample in the returned block must     *)
(* be those of the specification; samples outside the file are padding (any value).                    *)
EXTENDS PulseExtractor, TraceKit
VARIABLES tid, l
tvars == <<tid, l>>
Ev == Traces[tid].ev
H == Traces[tid].hdr
EvOK(e) ==
  LET ns == NSamps(e.md, e.w, e.mn) IN
  /\ e.outcome = "ok"
  /\ e.nsamps = ns /\ e.nstart = NStart(e.toa, e.md, e.w, e.mn) /\ e.toa_block = ToaInBlock(e.toa, e.md, e.w, e.mn)
  /\ e.nstart_file = NStartFile(e.toa, e.md, e.w, e.mn) /\ e.nsamps_file = NSampsFile(H.N, e.toa, e.md, e.w, e.mn)
  /\ e.shape = <<H.C, ns>>
  /\ \A c \in 1..H.C : \A k \in 0..(ns - 1) :
        LET f == Source(H.N, e.toa, e.md, e.w, e.mn, k) IN
        f # -1 => e.block[c][k + 1] = H.vals[f * H.C + c]
TInit == tid \in 1..NT /\ l = 1 /\ MarkInit(tid)
TNext == /\ l <= Len(Ev) /\ Judge(tid, l, EvOK(Ev[l])) /\ l' = l + 1 /\ UNCHANGED tid /\ Mark(tid, l + 1)
TSpec == TInit /\ [][TNext]_tvars
=============================================================================
