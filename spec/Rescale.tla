------------------------------- MODULE Rescale -------------------------------
(* Streaming rescaler (sigpyproc.io.rescale.Rescale).  NOT one of the twenty listed properties:    *)
(* part of the specification's growth beyond them (DESIGN.md section 0.5).  An object with          *)
(* history: running sums, a sample counter, an update threshold, a first-call flag.  What a user    *)
(* relies on: the (offset, scale) in force are the mean and standard deviation of EXACTLY the        *)
(* samples seen up to the last update; updates happen on the first call and then whenever at least   *)
(* `Every` samples have been seen (never again with constant_offset_scale); a call returns           *)
(* (x + offset) * scale with the values in force after its own update.                               *)
(* Integer data: the channel sums s1, s2 and the counter n are exact.  `seen` is a ghost variable.   *)
EXTENDS Util

CONSTANTS C, Every, Constant, MaxBlk, Variant   \* Variant: "intended" | "pinned" (counter advanced by nchans instead of the block length)
VARIABLES n, s1, s2, first, cn, cs1, cs2, seen
vars == <<n, s1, s2, first, cn, cs1, cs2, seen>>

Blocks == UNION {[1..k -> [1..C -> 0..1]] : k \in 1..MaxBlk}
ColSum(b, c)  == SumSeq([t \in 1..Len(b) |-> b[t][c]])
ColSum2(b, c) == SumSeq([t \in 1..Len(b) |-> b[t][c] * b[t][c]])

Init == /\ n = 0 /\ s1 = [c \in 1..C |-> 0] /\ s2 = [c \in 1..C |-> 0] /\ first = TRUE /\ seen = 0
        /\ cn = 0 /\ cs1 = [c \in 1..C |-> 0] /\ cs2 = [c \in 1..C |-> 0]
Execute(b) ==
  /\ seen' = seen + Len(b)
  /\ IF Constant /\ ~first THEN UNCHANGED <<n, s1, s2, first, cn, cs1, cs2>>
     ELSE LET n2  == n + (IF Variant = "pinned" THEN C ELSE Len(b))
              s1n == [c \in 1..C |-> s1[c] + ColSum(b, c)]
              s2n == [c \in 1..C |-> s2[c] + ColSum2(b, c)]
              upd == n2 >= Every \/ first IN
          /\ n' = n2 /\ s1' = s1n /\ s2' = s2n /\ first' = FALSE
          /\ IF upd THEN cn' = n2 /\ cs1' = s1n /\ cs2' = s2n ELSE UNCHANGED <<cn, cs1, cs2>>
Next == seen < 3 * MaxBlk /\ \E b \in Blocks : Execute(b)
Spec == Init /\ [][Next]_vars

(* the counter behind the committed statistics is the number of samples they summarise *)
CounterIsSamples == Constant \/ n = seen
CommittedIsPrefix == cn <= n /\ (cn > 0 => \A c \in 1..C : cs1[c] <= cn /\ cs2[c] <= cn)      \* data in 0..1
(* exact mean and variance in force:  mean_c = cs1[c]/cn,  var_c = cs2[c]/cn - mean_c^2  =  (cn*cs2[c] - cs1[c]^2) / cn^2 *)
VarNum(c) == cn * cs2[c] - cs1[c] * cs1[c]
VarianceNonNegative == cn > 0 => \A c \in 1..C : VarNum(c) >= 0
=============================================================================
