SPECIFICATION Spec
CONSTANTS
  MaxFiles = 3
  MaxLen = 4
  NBits = 4
INVARIANT PosAgree
INVARIANT ResultAgree
INVARIANT InBounds
INVARIANT NoLeak
