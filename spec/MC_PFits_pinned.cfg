SPECIFICATION Spec
CONSTANTS
  MaxS = 3
  MaxBlk = 4
  Variant = "pinned"
INVARIANT PositionIndependent
