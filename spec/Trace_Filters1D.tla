-------------------------- MODULE Trace_Filters1D --------------------------
(* Code -> spec binding for C14: every recorded call of running_filter, the decimators (1-D,   *)
(* 2-D, flattened; mean and median; compiled and pure-Python kernels), detrend_1d and the       *)
(* container methods is compared with the definitions of Filters1D on the integer input it was  *)
(* given; float outputs arrive in fixed point (q = 256), integer-typed outputs exactly.          *)
EXTENDS Filters1D, Moments, TraceKit

VARIABLES tid, l
tvars == <<tid, l>>
Ev == Traces[tid].ev

SeqNear(outq, q, nums, den, tol) ==
  /\ Len(outq) = Len(nums)
  /\ \A i \in 1..Len(nums) : Near(outq[i], q, <<nums[i], den>>, tol)
SeqFloor(out, nums, den) == out = [i \in 1..Len(nums) |-> nums[i] \div den]
Judge1(e, nums, den) == IF e.reduced THEN SeqFloor(e.outq, nums, den) ELSE SeqNear(e.outq, e.q, nums, den, e.tol)
MatNear(e, M, den) == /\ Len(e.outq) = Len(M)
                      /\ \A r \in 1..Len(M) : Judge1([e EXCEPT !.outq = e.outq[r]], M[r], den)

EvOK(e) ==
  /\ e.outcome = "ok"
  /\ CASE e.f = "run" /\ e.method = "mean"   -> Judge1(e, RunSum(e.x, e.w), e.w)
       [] e.f = "run" /\ e.method = "median" -> Judge1(e, RunMed2(e.x, e.w), 2)
       [] e.f = "deredden" /\ e.method = "mean"   -> Judge1(e, [i \in 1..Len(e.x) |-> e.x[i] * e.w - RunSum(e.x, e.w)[i]], e.w)
       [] e.f = "deredden" /\ e.method = "median" -> Judge1(e, [i \in 1..Len(e.x) |-> 2 * e.x[i] - RunMed2(e.x, e.w)[i]], 2)
       [] e.f = "dec1d" /\ e.method = "mean"   -> Judge1(e, DecSum1D(e.x, e.f1), e.f1)
       [] e.f = "dec1d" /\ e.method = "median" -> Judge1(e, DecMed2_1D(e.x, e.f1), 2)
       [] e.f = "dec2d" /\ e.method = "mean"   -> MatNear(e, DecSum2D(e.A, e.f1, e.f2), e.f1 * e.f2)
       [] e.f = "dec2d" /\ e.method = "median" -> MatNear(e, DecMed2_2D(e.A, e.f1, e.f2), 2)
       [] e.f = "decflat" /\ e.method = "mean"   -> Judge1(e, Flatten(DecSum2D(Unflatten(e.x, e.d1, e.d2), e.f1, e.f2)), e.f1 * e.f2)
       [] e.f = "decflat" /\ e.method = "median" -> Judge1(e, Flatten(DecMed2_2D(Unflatten(e.x, e.d1, e.d2), e.f1, e.f2)), 2)
       [] e.f = "detrend" -> IF Len(e.x) = 1 THEN e.outq = <<0>>
                             ELSE SeqNear(e.outq, e.q, [i \in 1..Len(e.x) |-> DetNum(e.x, i - 1)], DetDen(e.x), e.tol)

TInit == tid \in 1..NT /\ l = 1 /\ MarkInit(tid)
TNext == /\ l <= Len(Ev)
         /\ Judge(tid, l, EvOK(Ev[l]))
         /\ l' = l + 1 /\ UNCHANGED tid /\ Mark(tid, l + 1)
TSpec == TInit /\ [][TNext]_tvars
=============================================================================
