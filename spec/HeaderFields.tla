---------------------------- MODULE HeaderFields ----------------------------
(* The physical field mapping between a Header and the SIGPROC keys (C05), in integers.    *)
(*  - reference frame <-> (barycentric, pulsarcentric) flags;                                *)
(*  - sky angles in centi-arcseconds (0.01 arcsec), stored by SIGPROC as the decimal digits       *)
(*    ddmmss.ss of the magnitude with ONE sign for the whole value - so that -0d30' is not   *)
(*    +0d30';                                                                                *)
(*  - telescope / backend identifiers as bijections with the Fake/0 fallback.                *)
(* Pinned* are the decoders of the pinned commit, kept as negative controls.                 *)
EXTENDS Util

Frames == {"topocentric", "barycentric", "pulsarcentric"}
Flags(f) == [bary |-> IF f = "barycentric" THEN 1 ELSE 0, pulsar |-> IF f = "pulsarcentric" THEN 1 ELSE 0]
FrameOf(fl) == IF fl.bary = 1 THEN "barycentric" ELSE IF fl.pulsar = 1 THEN "pulsarcentric" ELSE "topocentric"
PinnedFrameOf(fl) == IF fl.bary = 1 THEN "barycentric" ELSE "topocentric"      \* second assignment overwrote the first

(* a = signed angle in centi-arcsec;  digits = (dd*10^4 + mm*10^2 + ss)*100 + hundredths, i.e. ddmmss.ss * 100 *)
Mag(a) == Abs(a)
DigitsOf(a) == ((Mag(a) \div 360000) * 10000 + ((Mag(a) \div 6000) % 60) * 100 + ((Mag(a) \div 100) % 60)) * 100 + (Mag(a) % 100)
NegOf(a) == a < 0
AngleOf(neg, digits) ==
  LET d == digits \div 1000000
      m == (digits \div 10000) % 100
      s == (digits \div 100) % 100
      h == digits % 100
      mag == d * 360000 + m * 6000 + s * 100 + h
  IN IF neg THEN -mag ELSE mag
PinnedAngleOf(neg, digits) ==          \* the sign multiplies the INTEGER DEGREES only: lost when they are 0
  LET d == digits \div 1000000
      rest == ((digits \div 10000) % 100) * 6000 + ((digits \div 100) % 100) * 100 + (digits % 100)
  IN (IF neg THEN -d ELSE d) * 360000 + rest
=============================================================================
