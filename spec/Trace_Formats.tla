---------------------------- MODULE Trace_Formats ----------------------------
(* Code -> spec binding for C04.  Two kinds of recorded histories:                          *)
(*  (a) writer sessions: prep_outfile(nbits) ; cwrite(array, in-memory dtype)* ; read back  *)
(*      with the matching reader - each cwrite must be Convert or Refuse of MC_Writer, and   *)
(*      the read-back must return the values written, in order, with the inferred count;     *)
(*  (b) format round trips (.tim, .dat/.inf, .spec, .fft/.inf, block -> .fil): values,        *)
(*      count and the timing metadata (tsamp, tstart, DM) must survive.                      *)
EXTENDS Writer, TraceKit

VARIABLES tid, l, datalen, vals
tvars == <<tid, l, datalen, vals>>
H  == Traces[tid].hdr
Ev == Traces[tid].ev

TPrep(e) == l = 1 /\ e.size = H.hdrlen /\ datalen' = 0 /\ vals' = <<>>

TCWrite(e) ==
  \/ /\ e.outcome = "ok"                                   \* Convert
     /\ e.size = H.hdrlen + datalen + (e.n * H.nbits) \div 8
     /\ datalen' = datalen + (e.n * H.nbits) \div 8
     /\ vals' = vals \o e.vals
  \/ /\ e.outcome = "refused"                              \* Refuse
     /\ e.size = H.hdrlen + datalen
     /\ UNCHANGED <<datalen, vals>>

TReadBack(e) ==
  /\ e.outcome = "ok"
  /\ e.ns = ReopenCount(datalen, H.nbits, H.nchans)
  /\ e.ns * H.nchans = Len(vals)                            \* count inferred = samples written
  /\ e.vals = vals
  /\ UNCHANGED <<datalen, vals>>

TRoundTrip(e) ==
  /\ e.outcome = "ok"
  /\ e.vals_out = e.vals_in
  /\ e.count_reader = e.n
  /\ Abs(e.tsamp_ppb) <= 2 /\ Abs(e.tstart_us) <= 100 /\ Abs(e.dm_ppm) <= 2
  /\ UNCHANGED <<datalen, vals>>

TInit == tid \in 1..NT /\ l = 1 /\ datalen = 0 /\ vals = <<>> /\ MarkInit(tid)
TNext == /\ l <= Len(Ev)
         /\ LET e == Ev[l] IN
              \/ e.a = "prep" /\ TPrep(e)
              \/ e.a = "cwrite" /\ TCWrite(e)
              \/ e.a = "readback" /\ TReadBack(e)
              \/ e.a = "roundtrip" /\ TRoundTrip(e)
         /\ l' = l + 1 /\ UNCHANGED tid /\ Mark(tid, l + 1)
TSpec == TInit /\ [][TNext]_tvars
=============================================================================
