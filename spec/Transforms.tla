----------------------------- MODULE Transforms -----------------------------
(* Whole-array DEFINITIONS of the streaming file-to-file transforms of Filterbank (C07).   *)
(* Input: flat value sequence V (time-major, channel fastest), C channels, selected range   *)
(* [s, s+n).  Each definition returns the output as [nch, ns, vals] - channels per sample,   *)
(* number of samples, flat values - or, for decimation / zero-DM, exact rational material.   *)
EXTENDS Reductions

Out(nch, ns, vals) == [nch |-> nch, ns |-> ns, vals |-> vals]
Flat2(ns, nch, F(_, _)) == [k \in 1..(ns * nch) |-> F((k - 1) \div nch, (k - 1) % nch)]   \* F(t, c), 0-based

DefInvert(V, C, s, n) ==
  LET F(t, c) == At(V, C, s + t, C - 1 - c) IN Out(C, n, Flat2(n, C, F))

DefMask(V, C, s, n, mask, val) ==                 \* mask[c+1] = TRUE for bad channels
  LET F(t, c) == IF mask[c + 1] THEN val ELSE At(V, C, s + t, c) IN Out(C, n, Flat2(n, C, F))

DefExtractSamps(V, C, s, n) ==
  LET F(t, c) == At(V, C, s + t, c) IN Out(C, n, Flat2(n, C, F))

DefExtractChan(V, C, s, n, ch) ==
  LET F(t, c) == At(V, C, s + t, ch) IN Out(1, n, Flat2(n, 1, F))

(* band k (0-based) of extract_bands(chanstart, nchans, chanpersub): nchans \div chanpersub files *)
NBands(nc, cps) == nc \div cps
DefExtractBand(V, C, s, n, c0, cps, k) ==
  LET F(t, c) == At(V, C, s + t, c0 + k * cps + c) IN Out(cps, n, Flat2(n, cps, F))

(* decimation: sum over each COMPLETE tf x ff tile; the mean is TileSum / (tf*ff) *)
DefDownsampleSums(V, C, s, n, tf, ff) ==
  LET ns == n \div tf
      nc == C \div ff
      F(t, c) == SumSeq([i \in 1..(tf * ff) |-> At(V, C, s + t * tf + ((i - 1) \div ff), c * ff + ((i - 1) % ff))])
  IN Out(nc, ns, Flat2(ns, nc, F))

(* sub-banding: nsub groups of C \div nsub adjacent channels, delay-shifted sums, t < n - maxdelay *)
DefSubband(V, C, s, n, del, nsub) ==
  LET md == MaxSeq(del)
      w  == C \div nsub
      F(t, j) == SumSeq([i \in 1..w |-> At(V, C, s + t + del[j * w + i], j * w + i - 1)])
  IN Out(nsub, n - md, Flat2(n - md, nsub, F))

(* zero-DM removal (Eatough, Keane & Lyne 2009):  y[t][c] = x[t][c] - z[t]*w[c] + b[c],
   z[t] = sum_c x[t][c],  b[c] = mean over the selected range of channel c,  w[c] = b[c] / sum_c b[c].
   With S_c the channel sums and S their total:  y = (x*S*n - z*S_c*n + S_c*S) / (S*n), a rational. *)
ZeroDMNum(V, C, s, n, t, c) ==
  LET Sc == DefBandSum(V, C, s, n)
      S  == SumSeq(Sc)
      z  == DefCollapse(V, C, s, n)[t + 1]
  IN At(V, C, s + t, c) * S * n - z * Sc[c + 1] * n + Sc[c + 1] * S
ZeroDMDen(V, C, s, n) == SumSeq(DefBandSum(V, C, s, n)) * n

(* reduction of an exact mean to an integer output depth: the kernels assign a float into an
   integer array, i.e. truncate (= floor for the non-negative values stored in a filterbank) *)
ToDepth(num, den) == num \div den
=============================================================================
