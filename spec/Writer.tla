------------------------------- MODULE Writer -------------------------------
(* One output file as the operating system sees it while a writer runs (C20, C04).        *)
(* State: the bytes on disk.  Actions: PrepHeader (the complete header, in one write,      *)
(* first), AppendData (bytes are only ever added at the end), Crash/Truncate (any cut at    *)
(* or after the header) and the reader's view Reopen.  The implementation is bound to       *)
(* this machine by Trace_Writer; WriterPipe embeds it in the streaming transforms.          *)
EXTENDS Util

(* the library reader's view of a data section of dl bytes: complete samples only *)
ReopenCount(dl, nbits, nchans) == (8 * dl) \div (nbits * nchans)
=============================================================================
