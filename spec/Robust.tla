------------------------------- MODULE Robust -------------------------------
(* Robust location / scale estimators and z-scores (C15).  A LANE is a sequence of integers.     *)
(* For the order-statistic estimators the value is defined exactly up to the method's constant     *)
(* (kept to 1e-4); "std" and "diffcov" through an integer square root; "biweight" is left          *)
(* undefined (eighth powers of sums do not fit 32-bit integers) - for it, as for all methods, the   *)
(* RELATIONS of C15 are checked on observations: affine equivariance, lane consistency,             *)
(* broadcastable shapes, finiteness and the unit-scale fallback.                                    *)
EXTENDS RFIMask, Moments

Methods == {"std", "iqr", "mad", "diffcov", "biweight", "qn", "sn", "gapper"}
Defined == Methods \ {"biweight"}

PairDiffs(xs) == LET n == Len(xs)
                     F[i \in 1..n] == [j \in 1..(n - i) |-> Abs(xs[i] - xs[i + j])]
                 IN Concat([i \in 1..n |-> F[i]])                       \* |x_i - x_j|, i < j
Kth(s, k) == SortSeq(s)[k]

(* value * q of each defined estimator on a lane of integers (floor arithmetic; constants to 1e-4) *)
ValQ(m, xs, q) ==        \* products are staged so that every intermediate stays below 2^31 for |x| <= 100, n <= 16, q = 256
  LET n == Len(xs) IN
  CASE m = "std" -> (ISqrt(A(OfSeq(xs)) * 256) * (q \div 16)) \div n                     \* sqrt(n*s2 - s1^2) / n
    [] m = "iqr" -> ((Perc4(SortSeq(xs), 3) - Perc4(SortSeq(xs), 1)) * q * 1000) \div (4 * 1349)
    [] m = "mad" -> LET m2 == Med2(xs)
                        d2 == [i \in 1..n |-> Abs(2 * xs[i] - m2)]
                        mad4 == Med2(d2) IN
                    IF mad4 > 0 THEN (mad4 * q * 1000) \div 2698                          \* / (4 * 0.6745)
                    ELSE (SumSeq(d2) * q * 1000) \div (2 * n * 798)                       \* mean |d| / sqrt(2/pi)
    [] m = "qn"  -> LET h == (n \div 2) + 1  k == (h * (h - 1)) \div 2 IN (Kth(PairDiffs(xs), k) * q * 1000) \div 451
    [] m = "sn"  -> LET rows == [i \in 1..n |-> Med2([j \in 1..n |-> Abs(xs[i] - xs[j])])] IN    \* 2 * median_j |xi - xj|
                    (Med2(rows) * q * 1193) \div 4000
    [] m = "gapper" -> LET s == SortSeq(xs)
                           g == SumSeq([i \in 1..(n - 1) |-> i * (n - i) * (s[i + 1] - s[i])]) IN
                       IF g < 4000 THEN (g * q * 1772) \div (n * (n - 1) * 1000)
                       ELSE (((g * 1772) \div 1000) * q) \div (n * (n - 1))
    [] m = "diffcov" -> LET d == [i \in 1..(n - 1) |-> xs[i + 1] - xs[i]]
                            mm == n - 2
                            u == SubSeq(d, 1, mm)  w == SubSeq(d, 2, mm + 1)
                            (* cov = (mm * sum(u w) - sum u sum w) / (mm (mm - 1)) *)
                            num == Abs(mm * SumSeq([i \in 1..mm |-> u[i] * w[i]]) - SumSeq(u) * SumSeq(w))
                            den == mm * (mm - 1) IN
                        IF num < 30000 THEN ISqrt((num * q * q) \div den) ELSE ISqrt(((num * q) \div den) * q)
=============================================================================
