SPECIFICATION Spec
CONSTANTS
  MaxN = 7
INVARIANT GulpIndependent
INVARIANT CountsSum
INVARIANT OneCell
INVARIANT PulseTrain
INVARIANT NoTie
INVARIANT FastIsDef
