SPECIFICATION Spec
CONSTANTS
  Which = "wrong"
INVARIANT Deterministic
