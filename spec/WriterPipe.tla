----------------------------- MODULE WriterPipe -----------------------------
(* A streaming file-to-file transform as a process writing to disk (C07 + C20):              *)
(*    Prep (complete header, atomically first) -> Append* (one kernel output per yielded      *)
(*    block) -> Return ;  Crash may strike between any two steps ; Reopen is what the         *)
(*    library's own reader makes of the surviving bytes.                                      *)
(* The disk is a sequence of byte-cells: HLen header cells followed by data cells; an output  *)
(* value of width Wd bytes is Wd cells <<v, j>>.  Variants name deliberate wrong designs kept  *)
(* as negative controls: "patchhdr" rewrites a header cell at the end, "buffered" holds the    *)
(* last block back until Return+Close, "perblock_decim" forgets that gulps must be multiples   *)
(* of the time factor.                                                                         *)
EXTENDS Transforms, PlanArith

CONSTANTS MaxN, Variant, HLen, Wd

VARIABLES run,     \* [op, N, C, gulp, start, nsamps, tf, ff, del, nsub]
          pc,      \* "prep" | "stream" | "returned" | "crashed"
          k,       \* next block
          disk,    \* sequence of cells
          held     \* "buffered" variant only: output not yet on disk
vars == <<run, pc, k, disk, held>>

Ops == {"extract", "downsample", "subband"}
W2(N, C) == [i \in 1..(N * C) |-> 3 ^ (i - 1)]
V == W2(run.N, run.C)

Runs == { r \in [op : Ops, N : 1..MaxN, C : {2}, gulp : 1..(MaxN + 1), start : 0..MaxN, nsamps : 1..MaxN,
                 tf : 1..3, ff : {1, 2}, del : {<<0, 0>>, <<0, 1>>, <<0, 2>>}, nsub : {1, 2}] :
            /\ r.start + r.nsamps <= r.N
            /\ (r.op # "downsample" => r.tf = 1 /\ r.ff = 1)
            /\ (r.op # "subband" => r.del = <<0, 0>> /\ r.nsub = 1)
            /\ (r.op = "subband" => MaxSeq(r.del) < r.nsamps) }

MDr(r) == IF r.op = "subband" THEN MaxSeq(r.del) ELSE 0
PlanOf(r) ==
  [N |-> r.N, start |-> r.start, nsamps |-> r.nsamps, skip |-> MDr(r),
   gulp |-> IF r.op = "downsample" /\ Variant # "perblock_decim" THEN CeilDiv(r.gulp, r.tf) * r.tf   \* gulp rounded up to a multiple of tf
            ELSE IF r.op = "subband" THEN Max(2 * MDr(r), r.gulp) ELSE r.gulp]

OutCh(r) == IF r.op = "downsample" THEN r.C \div r.ff ELSE IF r.op = "subband" THEN r.nsub ELSE r.C

(* kernel output for the block of samples [a, a+len): the transform applied to that block alone *)
KernelOut(r, a, len) ==
  CASE r.op = "extract"    -> DefExtractSamps(V, r.C, a, len).vals
    [] r.op = "downsample" -> DefDownsampleSums(V, r.C, a, len, r.tf, r.ff).vals
    [] r.op = "subband"    -> DefSubband(V, r.C, a, len, r.del, r.nsub).vals

Final(r) ==
  CASE r.op = "extract"    -> DefExtractSamps(V, r.C, r.start, r.nsamps).vals
    [] r.op = "downsample" -> DefDownsampleSums(V, r.C, r.start, r.nsamps, r.tf, r.ff).vals
    [] r.op = "subband"    -> DefSubband(V, r.C, r.start, r.nsamps, r.del, r.nsub).vals

Cells(vals) == [i \in 1..(Len(vals) * Wd) |-> <<vals[((i - 1) \div Wd) + 1], (i - 1) % Wd>>]
Header == [i \in 1..HLen |-> <<"H", i>>]

Init == run \in Runs /\ pc = "prep" /\ k = 0 /\ disk = <<>> /\ held = <<>>

Prep == /\ pc = "prep" /\ pc' = "stream" /\ disk' = Header /\ UNCHANGED <<run, k, held>>

AppendBlock ==
  /\ pc = "stream" /\ k < NBlocks(PlanOf(run))
  /\ LET p == PlanOf(run)
         o == Cells(KernelOut(run, BlockStart(p, k), BlockLen(p, k)))
     IN IF Variant = "buffered"
        THEN disk' = disk \o held /\ held' = o          \* one block is always still in memory
        ELSE disk' = disk \o o /\ held' = held
  /\ k' = k + 1 /\ UNCHANGED <<run, pc>>

Return ==
  /\ pc = "stream" /\ k = NBlocks(PlanOf(run))
  /\ pc' = "returned"
  /\ disk' = IF Variant = "patchhdr" THEN [disk EXCEPT ![1] = <<"H", 99>>] ELSE disk
  /\ UNCHANGED <<run, k, held>>

Crash == pc \in {"prep", "stream"} /\ pc' = "crashed" /\ UNCHANGED <<run, k, disk, held>>

Next == Prep \/ AppendBlock \/ Return \/ Crash
Spec == Init /\ [][Next]_vars

(* ------------------------------------ properties --------------------------------------- *)
FinalDisk == Header \o Cells(Final(run))
AppendOnly   == [][IsPrefixOf(disk, disk')]_vars
HeaderFirst  == disk = <<>> \/ IsPrefixOf(Header, disk)
PrefixOfFinal == IsPrefixOf(disk, FinalDisk)
CompleteOnReturn == pc = "returned" => disk = FinalDisk
(* the reader's view of ANY truncation of the surviving file at or after the header *)
Reopen(bytes) ==
  LET dl == Len(bytes) - HLen
      ns == dl \div (OutCh(run) * Wd)
  IN [ns |-> ns, vals |-> [i \in 1..(ns * OutCh(run)) |-> bytes[HLen + (i - 1) * Wd + 1][1]]]
RecoverK == Len(disk) >= HLen =>
              \A cut \in HLen..Len(disk) :
                 LET v == Reopen(SubSeq(disk, 1, cut)) IN
                 /\ v.ns * OutCh(run) <= Len(Final(run))
                 /\ v.vals = SubSeq(Final(run), 1, v.ns * OutCh(run))
WitnessCrashMid == ~(pc = "crashed" /\ k >= 1 /\ k < NBlocks(PlanOf(run)))
=============================================================================
