SPECIFICATION Spec
CONSTANTS
  MaxItems = 2
INVARIANT ParseEnc
INVARIANT EncParse
INVARIANT EditSound
INVARIANT EditLength
