SPECIFICATION Spec
CONSTANTS
  MaxFiles = 3
  MaxLen = 3
  NBits = 8
INVARIANT PosAgree
INVARIANT ResultAgree
INVARIANT InBounds
INVARIANT NoLeak
