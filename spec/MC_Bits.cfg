SPECIFICATION BSpec
INVARIANT FieldRange
INVARIANT FieldCount
INVARIANT PackUnpack
INVARIANT Injective
INVARIANT MsbFirstBig
INVARIANT LsbFirstLittle
INVARIANT PositionFree
