SPECIFICATION Spec
CONSTANTS
  N = 13
  MaxW = 6
INVARIANT PulseRecovered
INVARIANT OffsetFree
INVARIANT ScaleLinear
INVARIANT BankOK
