------------------------------- MODULE Apps -------------------------------
(* The command-line layer (sigpyproc.apps: spp_extract samples|channels|bands, spp_header update, spp_clean)      *)
(* as a REFINEMENT MAP onto the library operations the lower modules specify: a command line is a record           *)
(* [cmd, args] and Lib(c) is the library call it must behave as.  The map is what is checked: the harness runs the    *)
(* real click entry points, records the files they leave behind, and validates them as events of the operation      *)
(* Lib(c) names (Trace_Transforms / Trace_SigprocCodec / Trace_RFIMask) - not of a separate, weaker statement.        *)
EXTENDS Naturals, Sequences

Default(args, k, d) == IF k \in DOMAIN args THEN args[k] ELSE d

Lib(c) ==
  CASE c.cmd = "spp_extract samples"  -> [op |-> "extract_samps", start |-> c.args.start, nsamps |-> c.args.nsamps,
                                           gulp |-> Default(c.args, "gulp", 16384)]
    [] c.cmd = "spp_extract channels" -> [op |-> "extract_chans", chans |-> c.args.chans, start |-> 0, gulp |-> 16384]       \* whole file
    [] c.cmd = "spp_extract bands"    -> [op |-> "extract_bands", chanstart |-> c.args.chanstart, nchans |-> c.args.nchans,
                                           chanpersub |-> c.args.chanpersub, start |-> 0, gulp |-> 16384]
    [] c.cmd = "spp_header update"    -> [op |-> "edit_header", key |-> c.args.key, value |-> c.args.value]
    [] c.cmd = "spp_clean"            -> [op |-> "clean_rfi", method |-> Default(c.args, "method", "mad"),
                                           threshold |-> Default(c.args, "threshold", 3), gulp |-> Default(c.args, "gulp", 16384)]

(* sanity of the map itself (checked by TLC on a handful of command lines in MC_Apps) *)
Cmds == { [cmd |-> "spp_extract samples", args |-> [start |-> 1, nsamps |-> 3]],
          [cmd |-> "spp_extract samples", args |-> [start |-> 0, nsamps |-> 2, gulp |-> 1]],
          [cmd |-> "spp_extract channels", args |-> [chans |-> <<0, 2>>]],
          [cmd |-> "spp_extract bands", args |-> [chanstart |-> 0, nchans |-> 4, chanpersub |-> 2]],
          [cmd |-> "spp_header update", args |-> [key |-> "source_name", value |-> "x"]],
          [cmd |-> "spp_clean", args |-> [method |-> "iqrm"]] }
VARIABLE done
Init == done = {}
Next == \E c \in Cmds \ done : done' = done \cup {c}
Spec == Init /\ [][Next]_done
MapTotal == \A c \in done : Lib(c).op \in {"extract_samps", "extract_chans", "extract_bands", "edit_header", "clean_rfi"}
DefaultsApplied == \A c \in done : (c.cmd = "spp_extract samples" /\ "gulp" \notin DOMAIN c.args) => Lib(c).gulp = 16384
=============================================================================
