----------------------------- MODULE Reductions -----------------------------
(* Whole-array DEFINITIONS of the streaming reductions of Filterbank (C06).  The data *)
(* of a file is the flat value sequence V (time-major, channel fastest), C channels;  *)
(* the selected range is samples [s, s+n).  Sequences are 1-based.                     *)
EXTENDS Moments

At(V, C, t, c) == V[t * C + c + 1]                 \* sample t, channel c, both 0-based

DefCollapse(V, C, s, n) ==
  [i \in 1..n |-> SumSeq([c \in 1..C |-> At(V, C, s + i - 1, c - 1)])]

DefBandSum(V, C, s, n) ==                           \* bandpass = DefBandSum / n
  [c \in 1..C |-> SumSeq([i \in 1..n |-> At(V, C, s + i - 1, c - 1)])]

DefChan(V, C, s, n, ch) == [i \in 1..n |-> At(V, C, s + i - 1, ch)]

DefDedisp(V, C, s, n, del) ==                       \* del[c] >= 0, max del < n
  [i \in 1..(n - MaxSeq(del)) |-> SumSeq([c \in 1..C |-> At(V, C, s + i - 1 + del[c], c - 1)])]

DefStats(V, C, s, n) ==                             \* per-channel abstract accumulators
  [c \in 1..C |-> OfSeq([i \in 1..n |-> At(V, C, s + i - 1, c - 1)])]
DefStatsBasic(V, C, s, n) ==
  [c \in 1..C |-> OfSeqBasic([i \in 1..n |-> At(V, C, s + i - 1, c - 1)])]

(* a block of the stream as the kernels see it: samples [a, a+len) flattened *)
Block(V, C, a, len) == Slice(V, a * C, (a + len) * C)
=============================================================================
