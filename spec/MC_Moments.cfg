SPECIFICATION Spec
CONSTANTS
  MaxLen = 7
  MaxVal = 3
INVARIANT ChunkingFree
INVARIANT MergeFree
INVARIANT Constant
INVARIANT NonNegVar
