-------------------------- MODULE MC_SigprocCodec --------------------------
(* Every header built from any ordered selection of up to MaxItems keys of a representative  *)
(* alphabet (two keys of each payload type, values from small tables including the empty      *)
(* string and zero; doubles are opaque 8-byte tokens): Parse(Enc(h)) = h and Enc(Parse(b)) = b; *)
(* a rewriting edit changes exactly one key and no data byte.                                 *)
EXTENDS SigprocCodec, TLC

CONSTANTS MaxItems
VARIABLES items, ekey, epay
vars == <<items, ekey, epay>>

Alpha == {"nchans", "nbits", "tsamp", "fch1", "signed", "source_name", "rawdatafile"}
Pays(k) ==
  CASE KeyType[k] = "I" -> {U32(0), U32(64), U32(70000)}
    [] KeyType[k] = "d" -> {<<0, 0, 0, 0, 0, 0, 0, 0>>, <<0, 0, 0, 0, 0, 112, 151, 64>>, <<154, 153, 153, 153, 153, 153, 185, 191>>}
    [] KeyType[k] = "b" -> {<<0>>, <<1>>}
    [] KeyType[k] = "str" -> {<<>>, <<74, 49>>, <<97, 98, 99, 32>>}
ItemSet == UNION {{[key |-> k, pay |-> p] : p \in Pays(k)} : k \in Alpha}
Distinct(s) == \A i, j \in 1..Len(s) : i # j => s[i].key # s[j].key
Headers == {s \in UNION {[1..n -> ItemSet] : n \in 0..MaxItems} : Distinct(s)}

Init == items \in Headers /\ ekey \in Alpha /\ epay \in UNION {Pays(k) : k \in Alpha}
Next == UNCHANGED vars
Spec == Init /\ [][Next]_vars

Data == <<7, 0, 255, 16>>
ParseEnc == LET p == Parse(Enc(items)) IN p.ok /\ p.items = items /\ p.hdrlen = Len(Enc(items))
EncParse == Enc(Parse(Enc(items) \o Data).items) = Enc(items)        \* trailing data never leaks into the parse
(* a length-preserving rewrite satisfies EditRewrites; a length-changing one cannot *)
EditSound ==
  LET file  == Enc(items) \o Data
      newit == SetKey(items, ekey, epay)
      file2 == Enc(newit) \o Data IN
  (HasKey(items, ekey) /\ Len(epay) = PayLen(KeyType[ekey]) /\ KeyType[ekey] # "str")
     => EditRewrites(file, file2, ekey, epay)
EditLength ==
  LET file  == Enc(items) \o Data
      file2 == Enc(SetKey(items, ekey, epay)) \o Data IN
  (HasKey(items, ekey) /\ Len(file2) # Len(file)) => ~EditRewrites(file, file2, ekey, epay)
=============================================================================
