------------------------------ MODULE MC_Bits ------------------------------
(* Exhaustive enumeration of the complete domain of Bits: every byte x depth x order. *)
EXTENDS Bits

VARIABLES b, nb, ord
bvars == <<b, nb, ord>>

BInit == b \in 0..255 /\ nb \in Depths /\ ord \in Orders
BNext == UNCHANGED bvars
BSpec == BInit /\ [][BNext]_bvars

FieldRange   == \A j \in 1..Fact(nb) : UnpackByte(b, nb, ord)[j] \in 0..(Pow2(nb) - 1)
FieldCount   == Len(UnpackByte(b, nb, ord)) = 8 \div nb
PackUnpack   == Pack(UnpackByte(b, nb, ord), nb, ord) = <<b>>
(* every field tuple is the unpacking of exactly one byte, hence Unpack(Pack(v)) = v for all v:
   the map b |-> UnpackByte(b) is injective on 0..255 and its range has 256 elements *)
Injective    == \A c \in 0..255 : UnpackByte(c, nb, ord) = UnpackByte(b, nb, ord) => c = b
MsbFirstBig  == ord = "big" =>
                  b = SumSeq([j \in 1..Fact(nb) |-> UnpackByte(b, nb, ord)[j] * Pow2((Fact(nb) - j) * nb)])
LsbFirstLittle == ord = "little" =>
                  b = SumSeq([j \in 1..Fact(nb) |-> UnpackByte(b, nb, ord)[j] * Pow2((j - 1) * nb)])
(* sequences: unpack distributes over concatenation (position independence) *)
PositionFree == \A c \in {0, 37, 255} :
                  Unpack(<<c, b>>, nb, ord) = UnpackByte(c, nb, ord) \o UnpackByte(b, nb, ord)
=============================================================================
