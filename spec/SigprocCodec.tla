---------------------------- MODULE SigprocCodec ----------------------------
(* The SIGPROC header as a byte grammar (C05).  A header is a sequence of items           *)
(*   [key |-> name, pay |-> payload bytes]   whose payload length is fixed by the key's    *)
(* type (I: 4, d: 8, b: 1) or carried by a length prefix (str).  Enc writes the grammar,   *)
(* Parse reads it back; they are written independently of each other and MC_SigprocCodec   *)
(* checks that they are mutually inverse.  Edit is the in-place key edit.                  *)
EXTENDS Util, SigprocKeys

U32(n) == <<n % 256, (n \div 256) % 256, (n \div 65536) % 256, (n \div 16777216) % 256>>
FromU32(b) == IF b[4] > 100 THEN 2000000000 ELSE b[1] + 256 * b[2] + 65536 * b[3] + 16777216 * b[4]   \* (32-bit TLC integers)
EncStr(bytes) == U32(Len(bytes)) \o bytes

EncItem(it) == EncStr(KeyBytes[it.key]) \o (IF KeyType[it.key] = "str" THEN EncStr(it.pay) ELSE it.pay)
RECURSIVE EncItems(_)
EncItems(items) == IF items = <<>> THEN <<>> ELSE EncItem(Head(items)) \o EncItems(Tail(items))
Enc(items) == EncStr(KeyBytes["HEADER_START"]) \o EncItems(items) \o EncStr(KeyBytes["HEADER_END"])

PayLen(t) == CASE t = "I" -> 4 [] t = "d" -> 8 [] t = "b" -> 1 [] OTHER -> 0

(* --- parser: position-based recursive descent over the byte sequence ------------------- *)
StrAt(b, at) ==          \* length-prefixed string starting at 0-based offset at: <<bytes, next offset>>
  IF at + 4 > Len(b) THEN << <<>>, Len(b) + 1 >>
  ELSE LET n == FromU32(SubSeq(b, at + 1, at + 4)) IN
       IF n > Len(b) \/ at + 4 + n > Len(b) THEN << <<>>, Len(b) + 1 >> ELSE <<SubSeq(b, at + 5, at + 4 + n), at + 4 + n>>
KeyOf(bytes) == IF \E k \in DOMAIN KeyBytes : KeyBytes[k] = bytes
                THEN CHOOSE k \in DOMAIN KeyBytes : KeyBytes[k] = bytes ELSE "?"

RECURSIVE ParseItems(_, _, _)
ParseItems(b, at, acc) ==
  IF at + 4 > Len(b) THEN [ok |-> FALSE, items |-> acc, hdrlen |-> at]
  ELSE LET ks == StrAt(b, at)
           k  == KeyOf(ks[1]) IN
       IF k = "HEADER_END" THEN [ok |-> TRUE, items |-> acc, hdrlen |-> ks[2]]
       ELSE IF k \notin KeyNames THEN [ok |-> FALSE, items |-> acc, hdrlen |-> at]
       ELSE IF KeyType[k] = "str"
            THEN LET v == StrAt(b, ks[2]) IN ParseItems(b, v[2], Append(acc, [key |-> k, pay |-> v[1]]))
            ELSE LET n == PayLen(KeyType[k]) IN
                 IF ks[2] + n > Len(b) THEN [ok |-> FALSE, items |-> acc, hdrlen |-> at] ELSE
                 ParseItems(b, ks[2] + n, Append(acc, [key |-> k, pay |-> SubSeq(b, ks[2] + 1, ks[2] + n)]))

Parse(b) ==
  LET s == StrAt(b, 0) IN
  IF Len(b) < 16 \/ KeyOf(s[1]) # "HEADER_START" THEN [ok |-> FALSE, items |-> <<>>, hdrlen |-> 0]
  ELSE ParseItems(b, s[2], <<>>)

(* --- in-place edit --------------------------------------------------------------------- *)
HasKey(items, k) == \E i \in 1..Len(items) : items[i].key = k
SetKey(items, k, pay) == [i \in 1..Len(items) |-> IF items[i].key = k THEN [key |-> k, pay |-> pay] ELSE items[i]]
PayOf(items, k) == items[CHOOSE i \in 1..Len(items) : items[i].key = k].pay
(* source names are padded with spaces / truncated to the length already in the file *)
PadTo(pay, n) == [i \in 1..n |-> IF i <= Len(pay) THEN pay[i] ELSE 32]

(* file = header bytes \o data bytes.  The two outcomes C05 allows: *)
EditRewrites(file, file2, k, pay) ==
  LET p == Parse(file)  q == Parse(file2) IN
  /\ p.ok /\ q.ok /\ HasKey(p.items, k)
  /\ q.hdrlen = p.hdrlen /\ Len(file2) = Len(file)
  /\ SubSeq(file2, p.hdrlen + 1, Len(file)) = SubSeq(file, p.hdrlen + 1, Len(file))      \* every data byte
  /\ \/ q.items = SetKey(p.items, k, pay)                                                   \* exactly that key
     \/ (k = "source_name" /\ q.items = SetKey(p.items, k, PadTo(pay, Len(PayOf(p.items, k)))))
EditRaises(file, file2) == file2 = file
=============================================================================
