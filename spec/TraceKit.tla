------------------------------ MODULE TraceKit ------------------------------
(* Batch trace validation: one TLC run validates thousands of recorded executions.   *)
(* The trace file (env TRACE_FILE) is a JSON object {"traces": [ {"id":..,"hdr":{..}, *)
(* "ev":[..]}, ...]}.  A Trace_<Module> spec picks a trace id in its initial state,    *)
(* consumes one event per step through the module's own actions, and records in a     *)
(* TLC register the furthest position reached.  The POSTCONDITION prints one REJECT   *)
(* line per trace that could not be consumed completely, and a VALIDATED line so that *)
(* the harness can tell "accepted" from "postcondition never ran".  Needs -workers 1. *)
EXTENDS Naturals, Sequences, TLC, TLCExt, Json, IOUtils

TraceData == JsonDeserialize(IOEnv.TRACE_FILE)
Traces    == TraceData.traces
NT        == Len(Traces)

Reg(t)       == 100 + t
MarkInit(t)  == TLCSet(Reg(t), 1)
Mark(t, pos) == IF pos > TLCGet(Reg(t)) THEN TLCSet(Reg(t), pos) ELSE TRUE

(* Stateless trace specs (each event judged on its own, e.g. one API call = one event) use Judge:
   a failing event is reported and the walk continues, so every event gets a verdict in one pass. *)
Judge(t, pos, ok) == IF ok THEN TRUE ELSE PrintT(<<"BAD", t, pos>>)

Report ==
  /\ \A t \in 1..NT :
        \/ TLCGet(Reg(t)) = Len(Traces[t].ev) + 1
        \/ PrintT(<<"REJECT", t, TLCGet(Reg(t))>>)
  /\ PrintT(<<"VALIDATED", NT>>)
=============================================================================
