SPECIFICATION Spec
CONSTANTS
  MaxC = 6
  Bad = "chans_stale"
INVARIANT NaturalMeetsRequirement
