SPECIFICATION Spec
CONSTANTS
  MaxC = 4
  MaxN = 2
  MaxDel = 0
  Mode = "law"
INVARIANT ZeroAtRef
INVARIANT Antisym
INVARIANT Monotone
INVARIANT AtMostTwo
INVARIANT RefFree
