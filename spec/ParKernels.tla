------------------------------ MODULE ParKernels ------------------------------
(* Parallel kernels (numba prange) - C19.  A kernel execution is a PROGRAM: a sequence of           *)
(* prange iterations, each a sequence of memory events [k |-> "R" | "W", a |-> array, i |-> index].  *)
(* A read-modify-write  x[i] += v  is TWO events (R then W), so a lost update is expressible.        *)
(* Threads may run the iterations in any order and interleave them at any event boundary (every      *)
(* assignment of iterations to threads and every chunk size is a restriction of that).               *)
(* A written value is a token determined by everything the iteration has read so far, so the final   *)
(* memory is schedule-independent iff no iteration reads or writes a cell another one writes.        *)
EXTENDS Util

Cell(e) == <<e.a, e.i>>
Writes(it) == {Cell(it[k]) : k \in {k \in 1..Len(it) : it[k].k = "W"}}
Reads(it)  == {Cell(it[k]) : k \in {k \in 1..Len(it) : it[k].k = "R"}}
(* every output cell is written by one iteration only, and no iteration reads a cell another iteration writes *)
Owned(prog) == \A p, q \in 1..Len(prog) : p # q =>
                  /\ Writes(prog[p]) \cap Writes(prog[q]) = {}
                  /\ Reads(prog[p]) \cap Writes(prog[q]) = {}

(* executing one event of iteration p: reg is what p has read so far, mem maps written cells to tokens *)
ReadVal(mem, c) == IF c \in DOMAIN mem THEN mem[c] ELSE <<"init", c>>
StepMem(mem, reg, p, k, e) == IF e.k = "W" THEN [c \in DOMAIN mem \cup {Cell(e)} |-> IF c = Cell(e) THEN <<p, k, reg>> ELSE mem[c]] ELSE mem
StepReg(mem, reg, e) == IF e.k = "R" THEN Append(reg, ReadVal(mem, Cell(e))) ELSE reg

(* the sequential evaluation: iterations in order, each to completion *)
RECURSIVE RunIter(_, _, _, _, _)
RunIter(it, p, k, mem, reg) ==
  IF k > Len(it) THEN mem ELSE RunIter(it, p, k + 1, StepMem(mem, reg, p, k, it[k]), StepReg(mem, reg, it[k]))
RECURSIVE RunSeq(_, _, _)
RunSeq(prog, p, mem) == IF p > Len(prog) THEN mem ELSE RunSeq(prog, p + 1, RunIter(prog[p], p, 1, mem, <<>>))
Empty == [c \in {} |-> 0]
SeqResult(prog) == RunSeq(prog, 1, Empty)
=============================================================================
