----------------------------- MODULE PlanArith -----------------------------
(* The constant-level arithmetic of a gulped read plan, shared by ReadPlan (C01), Pipeline  *)
(* (C06, C07, C11, C20) and PFits (C18).  A plan is a record [N, gulp, start, nsamps, skip]. *)
EXTENDS Util

G(c)   == Min(c.nsamps, c.gulp)                     \* effective gulp
End(c) == c.start + c.nsamps
Ids(a, n) == [i \in 1..n |-> a + i - 1]              \* samples a .. a+n-1


(* block list of the working tree: <<length, seekback>> per block.  Block k (0-based) starts
   k*(g - skip) samples into the range; all but the last hold g samples, the last holds the rest *)
KPlanList(c) ==
  LET g  == G(c)
      d  == g - c.skip
      nb == CeilDiv(c.nsamps - g, d) + 1
      lastread == c.nsamps - (nb - 1) * d
  IN [nreads |-> nb - 1, lastread |-> lastread,
      blocks |-> [i \in 1..(nb - 1) |-> <<g, c.skip>>] \o << <<lastread, 0>> >>]

KHonourable(c) == TRUE        \* every plan with skip < g is honoured

(* block list of the PINNED commit (negative control): divmod(nsamps, g - skip) and its correction *)
KPlanListOld(c) ==
  LET g  == G(c)
      d  == g - c.skip
      q  == c.nsamps \div d
      r  == c.nsamps % d
      nreads   == IF r < c.skip THEN q - 1 ELSE q
      lastread == IF r < c.skip THEN c.nsamps - (q - 1) * d ELSE r
  IN [nreads |-> nreads, lastread |-> lastread,
      blocks |-> [i \in 1..nreads |-> <<g, c.skip>>] \o (IF lastread # 0 THEN << <<lastread, 0>> >> ELSE <<>>)]

(* first sample of block k (0-based) and its length, for an honoured plan *)
BlockStart(c, k) == c.start + k * (G(c) - c.skip)
BlockLen(c, k)   == KPlanList(c).blocks[k + 1][1]
NBlocks(c)       == Len(KPlanList(c).blocks)
Accepted(c)      == c.skip < G(c) /\ KHonourable(c)
=============================================================================
