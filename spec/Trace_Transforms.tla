-------------------------- MODULE Trace_Transforms --------------------------
(* Code -> spec binding for C07: every recorded streaming transform call (any gulp, any       *)
(* sub-range, depths 1..32) is accepted only if each output file - as parsed from the bytes    *)
(* on disk by an independent reader - has the declared width, the sample count, and the data   *)
(* that the whole-array definition of Transforms gives for the model stream.                   *)
EXTENDS Transforms, Stream, TraceKit

VARIABLES tid, l
tvars == <<tid, l>>

H  == Traces[tid].hdr
Ev == Traces[tid].ev
D  == DataOf(H.files)
NB == H.nbits
C  == H.nchans
V  == IF NB = 32 THEN H.vals ELSE Values(D, NB)
HdrOK == H.N = NSamples(D, C, NB) /\ (NB = 32 \/ H.vals = Values(D, NB))

TopOf(nbits) == IF nbits = 32 THEN 4096 ELSE 2 ^ nbits - 1     \* 32-bit files in these traces hold values < 256

(* width + count: the data section is exactly ns samples of nch channels at the DECLARED depth *)
Shape(o, nch, ns) == o.ok /\ o.nchans = nch /\ o.datalen * 8 = ns * nch * o.nbits
Exact(o, d) == Shape(o, d.nch, d.ns) /\ o.isint /\ o.vals = d.vals

Decim(o, e) ==
  LET d == DefDownsampleSums(V, C, e.start, e.nsamps, e.tf, e.ff)
      tot == e.tf * e.ff IN
  /\ Shape(o, d.nch, d.ns)
  /\ IF o.nbits = 32
     THEN Len(o.valsq) = Len(d.vals) /\ \A i \in 1..Len(d.vals) : Near(o.valsq[i], e.q, <<d.vals[i], tot>>, 2)
     ELSE o.isint /\ o.vals = [i \in 1..Len(d.vals) |-> ToDepth(d.vals[i], tot)]

ZeroDM(o, e) ==
  LET den == ZeroDMDen(V, C, e.start, e.nsamps)
      num(i) == ZeroDMNum(V, C, e.start, e.nsamps, (i - 1) \div C, (i - 1) % C)
      inrange(i) == num(i) >= 0 /\ num(i) <= TopOf(o.nbits) * den IN
  /\ Shape(o, C, e.nsamps)
  /\ Len(o.valsq) = e.nsamps * C
  (* C07 bounds zero-DM removal "when NO value leaves the representable range": the premise is about the whole output (one value that
     wraps in a packed byte also damages its neighbour), so values are required only of outputs that stay in range throughout.
     den = 0 (all-zero selection): the weights are undefined, nothing is required *)
  /\ (den > 0 /\ \A i \in 1..(e.nsamps * C) : inrange(i)) =>
        \A i \in 1..(e.nsamps * C) : Abs(o.valsq[i] - ScaleR(<<num(i), den>>, e.q)) <= e.q + 2     \* one quantisation level

EvOK(e) ==
  /\ e.outcome = "ok"
  /\ CASE e.op = "invert"        -> Len(e.outs) = 1 /\ Exact(e.outs[1], DefInvert(V, C, e.start, e.nsamps)) /\ e.outs[1].nbits = NB
       [] e.op = "mask"          -> Len(e.outs) = 1 /\ Exact(e.outs[1], DefMask(V, C, e.start, e.nsamps, e.mask, e.value))
                                    /\ e.outs[1].nbits = NB
       [] e.op = "extract_samps" -> Len(e.outs) = 1 /\ Exact(e.outs[1], DefExtractSamps(V, C, e.start, e.nsamps))
                                    /\ e.outs[1].nbits = NB
       [] e.op = "extract_chans" -> Len(e.outs) = Len(e.chans)
                                    /\ \A k \in 1..Len(e.chans) : Exact(e.outs[k], DefExtractChan(V, C, e.start, e.nsamps, e.chans[k]))
       [] e.op = "extract_bands" -> Len(e.outs) = NBands(e.bnchans, e.cps)
                                    /\ \A k \in 1..Len(e.outs) :
                                          Exact(e.outs[k], DefExtractBand(V, C, e.start, e.nsamps, e.chanstart, e.cps, k - 1))
                                          /\ e.outs[k].nbits = NB
       [] e.op = "downsample"    -> Len(e.outs) = 1 /\ Decim(e.outs[1], e)
       [] e.op = "subband"       -> Len(e.outs) = 1 /\ Exact(e.outs[1], DefSubband(V, C, e.start, e.nsamps, e.del, e.nsub))
       [] e.op = "zerodm"        -> Len(e.outs) = 1 /\ ZeroDM(e.outs[1], e) /\ e.outs[1].nbits = NB

TInit == tid \in 1..NT /\ l = 1 /\ MarkInit(tid)
TNext == /\ l <= Len(Ev)
         /\ IF l > 1 THEN TRUE ELSE IF HdrOK THEN TRUE
            ELSE Assert(FALSE, <<"trace header inconsistent with the model stream", tid>>)
         /\ Judge(tid, l, EvOK(Ev[l]))
         /\ l' = l + 1 /\ UNCHANGED tid /\ Mark(tid, l + 1)
TSpec == TInit /\ [][TNext]_tvars
=============================================================================
