------------------------------ MODULE Stream ------------------------------
(* A multi-file SIGPROC data stream (sigpyproc.io.fileio.FileReader).                 *)
(*                                                                                      *)
(* Abstract layer (what C02 states): the stream is ONE byte array D, the concatenation  *)
(* of the files' data sections, with a cursor p.  Every operation is defined on (D, p). *)
(*                                                                                      *)
(* Code-shaped layer: the cursor is (ifile, off) and reads are loops over files, as in  *)
(* FileReader.cread / creadinto / _seek_set.  MC_Stream checks in lock-step that the    *)
(* code-shaped layer refines the abstract one for every reachable history.              *)
EXTENDS Bits

(* ---------- static helpers on a list of per-file data sections ---------------------- *)
DataOf(fs)   == Concat(fs)                       \* fs : Seq(Seq(0..255))
LensOf(fs)   == [i \in 1..Len(fs) |-> Len(fs[i])]
TotalOf(fs)  == SumSeq(LensOf(fs))
CumBefore(fs, i) == SumSeq(SubSeq(LensOf(fs), 1, i - 1))      \* bytes before file i (1-based)

ItemSize(nbits) == IF nbits = 16 THEN 2 ELSE IF nbits = 32 THEN 4 ELSE 1
BitFact(nbits)  == IF nbits \in Depths THEN 8 \div nbits ELSE 1

(* bytes -> what the reader hands out: unpacked fields below 8 bits, raw bytes otherwise
   (16/32-bit items are compared as their little-endian bytes, so no IEEE decoding is modelled) *)
Decode(bytes, nbits) == IF nbits \in Depths THEN Unpack(bytes, nbits, DefaultOrder(nbits)) ELSE bytes

(* ---------- abstract operations on (D, p): result records ---------------------------- *)
(* seek: ok iff the target is a position of an existing byte *)
ASeek(D, p, target) ==
  IF 0 <= target /\ target < Len(D) THEN [outcome |-> "ok", p |-> target]
  ELSE [outcome |-> "ValueError", p |-> p]

(* counted read of n units: n \div bitfact items of the dtype *)
ACReadBytes(n, nbits) == (n \div BitFact(nbits)) * ItemSize(nbits)
ACRead(D, p, n, nbits) ==
  LET nb == ACReadBytes(n, nbits) IN
  IF p + nb <= Len(D)
  THEN [outcome |-> "ok", p |-> p + nb, out |-> Decode(Slice(D, p, p + nb), nbits)]
  ELSE [outcome |-> "raise", p |-> -1, out |-> <<>>]        \* position afterwards unconstrained

(* buffer read of n bytes: returns only the bytes that exist, never raises at the end *)
ACReadInto(D, p, n) ==
  LET k == Min(n, Len(D) - p) IN
  [outcome |-> "ok", p |-> p + k, ret |-> k, out |-> Slice(D, p, p + k)]

(* read_block(start, k): (C x k) transpose of the sample slice; samples are C items each *)
SampleBytes(C, nbits) == (C * ItemSize(nbits)) \div BitFact(nbits)
NSamples(D, C, nbits) == ((8 * Len(D)) \div nbits) \div C
(* sample values of the decoded stream: fields below 8 bits, bytes at 8, little-endian pairs at 16.
   32-bit samples are IEEE floats, which the specification does not decode: for them the value
   sequence is supplied by whoever instantiates the model (fixtures write integer-valued floats). *)
Values(D, nbits) ==
  IF nbits \in Depths THEN Decode(D, nbits)
  ELSE IF nbits = 8 THEN D
  ELSE [i \in 1..(Len(D) \div 2) |-> D[2 * i - 1] + 256 * D[2 * i]]

(* read_block(s, k) on the value sequence V of a stream holding N whole samples of C channels:
   the (C x k) transpose of samples [s, s+k) *)
AReadBlock(V, C, N, s, k) ==
  IF s < 0 \/ k < 0 \/ s + k > N
  THEN [outcome |-> "ValueError", out |-> <<>>]
  ELSE [outcome |-> "ok",
        out |-> [c \in 1..C |-> [t \in 1..k |-> V[(s + t - 1) * C + c]]]]   \* out[c][t]

(* ---------- code-shaped operations on (fs, ifile, off) -------------------------------- *)
(* _seek_set: first file whose cumulative length exceeds the offset *)
CSeek(fs, ifile, off, target) ==
  IF target < 0 \/ target >= TotalOf(fs) THEN [outcome |-> "ValueError", ifile |-> ifile, off |-> off]
  ELSE LET fid == CHOOSE i \in 1..Len(fs) :
                    /\ target < CumBefore(fs, i) + Len(fs[i])
                    /\ \A j \in 1..(i - 1) : ~(target < CumBefore(fs, j) + Len(fs[j]))
       IN [outcome |-> "ok", ifile |-> fid, off |-> target - CumBefore(fs, fid)]

(* cread loop: take what the current file has, move to the next header, stop when the count is
   met; running off the end of the file list raises (FileBase._open -> ValueError) *)
RECURSIVE CCReadLoop(_, _, _, _, _)
CCReadLoop(fs, ifile, off, need, acc) ==
  LET avail == Len(fs[ifile]) - off
      take  == Min(avail, need)
      acc2  == acc \o Slice(fs[ifile], off, off + take)
  IN IF need - take = 0 THEN [outcome |-> "ok", ifile |-> ifile, off |-> off + take, bytes |-> acc2]
     ELSE IF ifile = Len(fs) THEN [outcome |-> "raise", ifile |-> ifile, off |-> off + take, bytes |-> acc2]
     ELSE CCReadLoop(fs, ifile + 1, 0, need - take, acc2)

(* creadinto loop: fill the buffer; stop when full or at end of the last file *)
RECURSIVE CCReadIntoLoop(_, _, _, _, _)
CCReadIntoLoop(fs, ifile, off, need, acc) ==
  LET avail == Len(fs[ifile]) - off
      take  == Min(avail, need)
      acc2  == acc \o Slice(fs[ifile], off, off + take)
  IN IF need - take = 0 \/ ifile = Len(fs)
     THEN [ifile |-> ifile, off |-> off + take, bytes |-> acc2]
     ELSE CCReadIntoLoop(fs, ifile + 1, 0, need - take, acc2)
=============================================================================
