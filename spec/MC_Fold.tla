------------------------------- MODULE MC_Fold -------------------------------
(* For every geometry and gulp in the bound: folding block by block (plan of PlanArith with      *)
(* skip = maxdelay, gulp = max(2*maxdelay, gulp), index ii*(gulp - maxdelay)) equals the          *)
(* whole-array definition; every folded sample is in exactly one cell; the hit counts sum to the  *)
(* number of samples folded; a strictly periodic pulse train occupies one phase bin.              *)
EXTENDS Fold, TLC
CONSTANTS MaxN
VARIABLES g, gulp, k, cells, pc
vars == <<g, gulp, k, cells, pc>>

Geoms == { x \in [N : 4..MaxN, C : 1..2, nbins : 2..3, nints : 1..2, nbands : 1..2, pn : {3, 5}, pd : {1, 2}, kn : {0, 1}, kd : {101},
                  del : {<<0, 0>>, <<0, 1>>, <<0, 2>>, <<0>>, <<1>>}] :
            Len(x.del) = x.C /\ (x.C = 1 => x.del = <<0>>) /\ MaxSeq(x.del) < x.N }
W(N, C) == [i \in 1..(N * C) |-> 3 ^ (i - 1)]
V == W(g.N, g.C)
Plan == [N |-> g.N, start |-> 0, nsamps |-> g.N, skip |-> MDg(g), gulp |-> Max(2 * MDg(g), gulp)]

Init == g \in Geoms /\ gulp \in 1..(MaxN + 1) /\ k = 0 /\ pc = "fold"
        /\ cells = [i \in 1..NCells(g) |-> <<0, 0>>]
Step == /\ pc = "fold" /\ k < NBlocks(Plan)
        /\ cells' = FoldBlock(g, V, cells, BlockStart(Plan, k), BlockLen(Plan, k), k * (Plan.gulp - MDg(g)))
        /\ k' = k + 1 /\ UNCHANGED <<g, gulp, pc>>
Finish == pc = "fold" /\ k = NBlocks(Plan) /\ pc' = "done" /\ UNCHANGED <<g, gulp, k, cells>>
Next == Step \/ Finish
Spec == Init /\ [][Next]_vars

GulpIndependent == pc = "done" => cells = DefFold(g, V)
CountsSum == pc = "done" => SumSeq([i \in 1..NCells(g) |-> cells[i][2]]) = NFolded(g) * g.C
OneCell == \A t \in 0..(NFolded(g) - 1) : \A c \in 0..(g.C - 1) : Cell(g, t, c) \in 1..NCells(g)
PulseTrain == (g.pd = 1 /\ g.kn = 0) =>
                \A t \in 0..(g.N - 1) : t + g.pn < g.N => PhaseBin(g, t + g.pn) = PhaseBin(g, t)
FastIsDef == pc = "fold" /\ k = 0 => DefFoldFast(g, V) = DefFold(g, V)
NoTie == \A t \in 0..(g.N - 1) : PhaseNum(g, t) % PhaseDen(g) # 0
=============================================================================
