---------------------------- MODULE Trace_Stream ----------------------------
(* Code -> spec binding for C02: recorded histories of FileReader.seek / cread /       *)
(* creadinto and FilReader.read_block on real files are accepted only if every event    *)
(* is the step the ABSTRACT layer of Stream (one byte array + cursor) prescribes.       *)
EXTENDS Stream, TraceKit

VARIABLES tid, l, p
tvars == <<tid, l, p>>

H  == Traces[tid].hdr
Ev == Traces[tid].ev
D  == DataOf(H.files)
NB == H.nbits
C  == H.nchans

TSeek(e) ==
  LET a == ASeek(D, p, IF e.whence = 0 THEN e.off ELSE p + e.off) IN
  /\ e.outcome = a.outcome
  /\ e.pos = a.p
  /\ p' = a.p

TCRead(e) ==
  LET a == ACRead(D, p, e.n, NB) IN
  IF a.outcome = "ok"
  THEN e.outcome = "ok" /\ e.out = a.out /\ e.pos = a.p /\ p' = a.p
  ELSE e.outcome # "ok" /\ p' = e.pos          \* position after a raising read is unconstrained

TCReadInto(e) ==
  LET a == ACReadInto(D, p, e.n) IN
  /\ e.outcome = "ok" /\ e.ret = a.ret /\ e.out = a.out /\ e.pos = a.p /\ p' = a.p

V  == IF NB = 32 THEN H.vals ELSE Values(D, NB)
ValsOK == NB = 32 \/ H.vals = Values(D, NB)      \* the fixture's values are the model's decoding

TReadBlock(e) ==
  LET a == AReadBlock(V, C, NSamples(D, C, NB), e.s, e.k) IN
  /\ e.outcome = a.outcome
  /\ IF a.outcome = "ok"
     THEN /\ e.out = a.out
          /\ e.shape = <<C, e.k>>
          /\ p' = (e.s + e.k) * SampleBytes(C, NB) /\ e.pos = p'
     ELSE p' = p /\ e.pos = p

TInit == tid \in 1..NT /\ l = 1 /\ p = Traces[tid].hdr.p0 /\ MarkInit(tid)
         /\ (IF ValsOK THEN TRUE ELSE Assert(FALSE, <<"fixture values disagree with Values(D)", tid>>))
TNext == /\ l <= Len(Ev)
         /\ LET e == Ev[l] IN
              \/ e.op = "seek" /\ TSeek(e)
              \/ e.op = "cread" /\ TCRead(e)
              \/ e.op = "creadinto" /\ TCReadInto(e)
              \/ e.op = "read_block" /\ TReadBlock(e)
         /\ l' = l + 1 /\ UNCHANGED tid /\ Mark(tid, l + 1)
TSpec == TInit /\ [][TNext]_tvars
=============================================================================
