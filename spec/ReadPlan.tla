----------------------------- MODULE ReadPlan -----------------------------
(* Gulped reading (Filterbank.read_plan) at the level of whole samples.  Sample t of the  *)
(* stream is identified with the integer t (provenance), so a block is a range of sample   *)
(* indices and "laid end to end" is sequence concatenation.                                *)
(*                                                                                          *)
(* Property-level layer (prefix P): every behaviour C01 allows - the reader may cut the range     *)
(* into ANY blocks of whole samples no longer than the effective gulp, each later block     *)
(* starting skip samples before the previous one ended.  The implementation is bound to     *)
(* this layer by Trace_ReadPlan.                                                            *)
(*                                                                                          *)
(* Code-shaped layers (prefix K): the arithmetic of FilReader.read_plan - divmod(nsamps, g-skip), *)
(* its correction, the block list, one buffer read per block.  KFixed is the arithmetic of  *)
(* the working tree, KOld the arithmetic of the pinned commit (kept as a negative control:  *)
(* TLC refutes that it refines the property-level layer).                                   *)
EXTENDS PlanArith

CONSTANTS MaxN,          \* bound on the number of samples in the stream
          Variant        \* "prop" | "fixed" | "old" : which layer drives the behaviour

VARIABLES cfg,      \* [N, gulp, start, nsamps, skip]
          phase,    \* "plan" | "read" | "rejected" | "done" | "failed"
          covered,  \* end (exclusive) of the samples delivered so far
          nyield,   \* number of blocks yielded
          blk,      \* last block yielded: [a |-> first sample, n |-> length]
          out,      \* samples delivered after dropping each later block's leading skip samples
          kb, kpos  \* code-shaped only: remaining block list, stream position (samples)
pvars == <<cfg, phase, covered, nyield, blk, out>>
vars  == <<cfg, phase, covered, nyield, blk, out, kb, kpos>>

Cfgs == { c \in [N : 1..MaxN, gulp : 1..(MaxN + 1), start : 0..MaxN, nsamps : 1..MaxN, skip : 0..MaxN] :   \* empty ranges excluded: C01's two clauses contradict each other there
            c.start + c.nsamps <= c.N }

Init == /\ cfg \in Cfgs /\ phase = "plan" /\ covered = 0 /\ nyield = 0
        /\ blk = [a |-> 0, n |-> 0] /\ out = <<>> /\ kb = <<>> /\ kpos = 0

(* ------------------------------ property-level layer -------------------------------- *)
MustReject(c) == c.skip >= G(c)
MayReject(c)  == 2 * c.skip > G(c)                   \* forbidden when skip <= gulp/2

PReject == /\ phase = "plan" /\ MayReject(cfg)
           /\ phase' = "rejected" /\ UNCHANGED <<cfg, covered, nyield, blk, out>>

PAccept == /\ phase = "plan" /\ ~MustReject(cfg)
           /\ phase' = "read" /\ covered' = cfg.start
           /\ UNCHANGED <<cfg, nyield, blk, out>>

(* block of n samples; the first starts at `start`, a later one skip samples before `covered` *)
PYield(n) ==
  /\ phase = "read" /\ (nyield = 0 \/ covered < End(cfg))
  /\ LET a == IF nyield = 0 THEN cfg.start ELSE covered - cfg.skip IN
     /\ n >= 1 /\ n <= G(cfg)
     /\ a + n <= End(cfg)                              \* never out of the requested range
     /\ nyield > 0 => n > cfg.skip                     \* a later block must deliver something new
     /\ (a + n = End(cfg)) \/ n >= cfg.skip             \* a non-final block must hold the next one's overlap
     /\ blk' = [a |-> a, n |-> n]
     /\ covered' = a + n
     /\ out' = out \o (IF nyield = 0 THEN Ids(a, n) ELSE Ids(a + cfg.skip, n - cfg.skip))
     /\ nyield' = nyield + 1
  /\ UNCHANGED <<cfg, phase>>

(* the implementation may close with one more block that holds ONLY the overlap (n = skip):
   it repeats the previous tail and delivers nothing new; allowed once, at the end *)
PYieldTail ==
  /\ phase = "read" /\ nyield > 0 /\ covered = End(cfg) /\ cfg.skip >= 1
  /\ blk.a + blk.n = covered /\ blk' = [a |-> covered - cfg.skip, n |-> cfg.skip]
  /\ blk # blk'
  /\ nyield' = nyield + 1
  /\ UNCHANGED <<cfg, phase, covered, out>>

PDone == /\ phase = "read" /\ nyield > 0 /\ covered = End(cfg)
         /\ phase' = "done" /\ UNCHANGED <<cfg, covered, nyield, blk, out>>

PNext == PReject \/ PAccept \/ (\E n \in 1..(MaxN + 1) : PYield(n)) \/ PYieldTail \/ PDone
PSpec == Init /\ [][PNext]_pvars

(* ------------------------------ code-shaped layers ---------------------------------- *)
KPlan ==
  /\ phase = "plan"
  /\ IF cfg.skip >= G(cfg) \/ (Variant = "fixed" /\ ~KHonourable(cfg))
     THEN phase' = "rejected" /\ UNCHANGED <<cfg, covered, nyield, blk, out, kb, kpos>>
     ELSE /\ phase' = "read" /\ covered' = cfg.start /\ kpos' = cfg.start
          /\ kb' = IF Variant = "old" THEN KPlanListOld(cfg).blocks ELSE KPlanList(cfg).blocks
          /\ UNCHANGED <<cfg, nyield, blk, out>>

(* one loop iteration: read into the buffer, check the byte count, seek back, yield *)
KStep ==
  /\ phase = "read" /\ kb # <<>>
  /\ LET want  == Head(kb)[1]
         back  == Head(kb)[2]
         (* pinned commit: creadinto always fills the FULL gulp buffer, bounded only by the end of the stream;
            working tree: reads exactly the block *)
         asked == IF Variant = "old" THEN G(cfg) ELSE want
         got   == Min(asked, cfg.N - kpos)
     IN IF got # want
        THEN /\ phase' = "failed" /\ kpos' = kpos + got           \* "Unexpected number of bytes read"
             /\ UNCHANGED <<cfg, covered, nyield, blk, out, kb>>
        ELSE /\ blk' = [a |-> kpos, n |-> want]
             /\ covered' = kpos + want
             /\ out' = out \o (IF nyield = 0 THEN Ids(kpos, want) ELSE Ids(kpos + cfg.skip, want - cfg.skip))
             /\ nyield' = nyield + 1
             /\ kpos' = kpos + got - back
             /\ kb' = Tail(kb)
             /\ UNCHANGED <<cfg, phase>>

KDone == /\ phase = "read" /\ kb = <<>>
         /\ phase' = "done" /\ UNCHANGED <<cfg, covered, nyield, blk, out, kb, kpos>>

KNext == KPlan \/ KStep \/ KDone
KSpec == Init /\ [][KNext]_vars

Spec == IF Variant = "prop" THEN PSpec ELSE KSpec
Next == IF Variant = "prop" THEN (PNext /\ UNCHANGED <<kb, kpos>>) ELSE KNext

(* ------------------------------ properties ------------------------------------------- *)
Exact    == phase = "done" => out = Ids(cfg.start, cfg.nsamps)
InRange  == nyield > 0 => cfg.start <= blk.a /\ blk.a + blk.n <= End(cfg)
Whole    == nyield > 0 => blk.n >= 1 /\ blk.n <= G(cfg)
PrefixOK == phase \in {"read", "done"} => out = Ids(cfg.start, Len(out)) /\ covered = cfg.start + Len(out)
RejectEarly == phase = "rejected" => nyield = 0
NeverFails  == phase # "failed"
MustRejectInv   == MustReject(cfg) => phase \in {"plan", "rejected"}
HalfGulpHonoured == ~MayReject(cfg) => phase # "rejected"
(* every behaviour terminates in done or rejected: no reachable state is stuck elsewhere *)
NoStuck == (phase \in {"plan", "read"}) => ENABLED Next

(* reachability witnesses (must be violated by TLC) *)
WitnessMultiBlockSkip == ~(phase = "done" /\ nyield >= 3 /\ cfg.skip >= 1)
WitnessLargeSkipHonoured == ~(phase = "done" /\ MayReject(cfg) /\ nyield >= 2)
=============================================================================
