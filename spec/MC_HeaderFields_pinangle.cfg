SPECIFICATION Spec
CONSTANTS
  Pinned = TRUE
INVARIANT AngleRoundTrip
