----------------------------- MODULE MC_Stream -----------------------------
(* Lock-step exploration: every reachable history of seek/cread/creadinto on every     *)
(* stream of 1..MaxFiles files of 0..MaxLen bytes; the code-shaped cursor (ifile, off)  *)
(* must refine the abstract cursor p on the concatenation, with identical results.      *)
EXTENDS Stream, TLC

CONSTANTS MaxFiles, MaxLen, NBits

VARIABLES fs,      \* per-file data sections (bytes are their own global index: provenance)
          p,       \* abstract position
          ifile, off,   \* code-shaped position
          ra, rc   \* last abstract / code-shaped result
vars == <<fs, p, ifile, off, ra, rc>>

LenTuples == UNION {[1..k -> 0..MaxLen] : k \in 1..MaxFiles}
(* identity data: byte i of the concatenation has value i (mod 256) *)
MkFiles(lens) == [i \in 1..Len(lens) |-> [j \in 1..lens[i] |-> (SumSeq(SubSeq(lens, 1, i - 1)) + j - 1) % 256]]

D == DataOf(fs)
T == TotalOf(fs)

Init == /\ \E lens \in LenTuples : SumSeq(lens) >= 1 /\ fs = MkFiles(lens)
        /\ p = 0 /\ ifile = 1 /\ off = 0      \* FileBase.__init__ opens file 0; FilReader seeks before use
        /\ ra = [op |-> "init"] /\ rc = [op |-> "init"]

(* the reader is only ever used after an initial seek (read_block / read_plan both seek first);
   a fresh FileReader sits at byte 0 of file 0, i.e. inside the header, so raw reads before the
   first seek are outside the property *)
Seek(target) ==
  LET a == ASeek(D, p, target)
      c == CSeek(fs, ifile, off, target) IN
  /\ p' = a.p /\ ifile' = c.ifile /\ off' = c.off
  /\ ra' = [op |-> "seek", outcome |-> a.outcome]
  /\ rc' = [op |-> "seek", outcome |-> c.outcome]
  /\ UNCHANGED fs

SeekSet == \E t \in -1..(T + 1) : Seek(t)
SeekCur == \E o \in -(T + 1)..(T + 1) : ra.op # "init" /\ Seek(p + o)

CRead == \E n \in 0..(T + 1) :
  /\ ra.op # "init"
  /\ LET a == ACRead(D, p, n, NBits)
         c == CCReadLoop(fs, ifile, off, ACReadBytes(n, NBits), <<>>) IN
     /\ ifile' = c.ifile /\ off' = c.off
     /\ p' = IF a.outcome = "ok" THEN a.p ELSE CumBefore(fs, c.ifile) + c.off   \* unconstrained after a raise
     /\ ra' = [op |-> "cread", outcome |-> a.outcome, out |-> a.out]
     /\ rc' = [op |-> "cread", outcome |-> c.outcome,
               out |-> IF c.outcome = "ok" THEN Decode(c.bytes, NBits) ELSE <<>>]
  /\ UNCHANGED fs

CReadInto == \E n \in 1..(T + 1) :
  /\ ra.op # "init"
  /\ LET a == ACReadInto(D, p, n)
         c == CCReadIntoLoop(fs, ifile, off, n, <<>>) IN
     /\ ifile' = c.ifile /\ off' = c.off /\ p' = a.p
     /\ ra' = [op |-> "creadinto", outcome |-> "ok", out |-> a.out, ret |-> a.ret]
     /\ rc' = [op |-> "creadinto", outcome |-> "ok", out |-> c.bytes, ret |-> Len(c.bytes)]
  /\ UNCHANGED fs

Next == SeekSet \/ SeekCur \/ CRead \/ CReadInto
Spec == Init /\ [][Next]_vars

(* ---- properties ---- *)
PosAgree    == p = CumBefore(fs, ifile) + off
ResultAgree == ra = rc
InBounds    == 0 <= p /\ p <= T
(* headers never leak, nothing skipped or repeated: with identity data a returned byte IS its index *)
NoLeak == (ra.op \in {"creadinto"} /\ Len(ra.out) > 0) =>
             \A i \in 1..Len(ra.out) : ra.out[i] = (p - Len(ra.out) + i - 1) % 256
(* reachability witnesses (must be violated): a read crossing two boundaries, a short buffer read *)
NoDoubleCross == ~(rc.op = "creadinto" /\ Len(fs) = 3 /\ ifile = 3 /\ Len(rc.out) >= 3 /\ Len(fs[2]) >= 1
                   /\ rc.out[1] < Len(fs[1]))
NoShortRead   == ~(ra.op = "creadinto" /\ ra.ret = 0)
=============================================================================
