SPECIFICATION Spec
CONSTANTS
  MaxN = 4
  NBits = 2
  C = 4
  HLen = 3
  Variant = "fixed"
INVARIANT CompleteOnReturn
INVARIANT PrefixAlways
INVARIANT CursorIsPosition
INVARIANT NeverShort
INVARIANT WholeSamples
PROPERTY AppendOnly
