INIT Init
NEXT Next
CONSTANTS
  MaxN = 10
  Variant = "prop"
INVARIANT Exact
INVARIANT InRange
INVARIANT Whole
INVARIANT PrefixOK
INVARIANT RejectEarly
INVARIANT MustRejectInv
INVARIANT HalfGulpHonoured
INVARIANT NoStuck
