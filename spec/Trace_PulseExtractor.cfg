SPECIFICATION TSpec
POSTCONDITION Report
CHECK_DEADLOCK FALSE
