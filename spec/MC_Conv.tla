------------------------------- MODULE MC_Conv -------------------------------
EXTENDS Conv, TLC
CONSTANTS MaxLen, MaxVal, MaxM, Mode
VARIABLES a, b, m, j
vars == <<a, b, m, j>>
Seqs == UNION {[1..n -> -MaxVal..MaxVal] : n \in 1..MaxLen}
Init == IF Mode = "conv" THEN a \in Seqs /\ b \in Seqs /\ m = 1 /\ j = 0
        ELSE a = <<0>> /\ b = <<0>> /\ m \in 1..MaxM /\ j \in 0..(2 * MaxM)
Next == UNCHANGED vars
Spec == Init /\ [][Next]_vars
Commutes == LinConv(a, b) = LinConv(b, a)
CorrIsConvWithReverse == Correlate(a, b) = LinConv(a, Reverse(b))
ConvLength == Len(LinConv(a, b)) = Len(a) + Len(b) - 1
ConvSum == SumSeq(LinConv(a, b)) = SumSeq(a) * SumSeq(b)
GoodSizeOK == GoodSize(m) >= m /\ Smooth5(GoodSize(m)) /\ \A k \in m..(GoodSize(m) - 1) : ~Smooth5(k)
(* the fixed-point table: on the unit circle within 2^-12, exact at the axes, symmetric *)
UnitCircle == LET t == TrigS(j, m) IN Abs(t[1] * t[1] + t[2] * t[2] - S * S) <= S * 8
Axes == /\ TrigS(0, m) = <<S, 0>>
        /\ (m % 4 = 0 => TrigS(m \div 4, m) = <<0, S>> /\ TrigS(m \div 2, m) = <<-S, 0>> /\ TrigS(3 * (m \div 4), m) = <<0, -S>>)
        /\ (m % 8 = 0 => Abs(TrigS(m \div 8, m)[1] - 11585) <= 3 /\ Abs(TrigS(m \div 8, m)[2] - 11585) <= 3)     \* cos 45 = 0.70711
        /\ (m % 6 = 0 => Abs(TrigS(m \div 6, m)[1] - 8192) <= 3 /\ Abs(TrigS(m \div 6, m)[2] - 14189) <= 3)        \* cos 60, sin 60
Conjugate == LET t == TrigS(j, m) u == TrigS(m - (j % m), m) IN Abs(t[1] - u[1]) <= 2 /\ Abs(t[2] + u[2]) <= 2
=============================================================================
