SPECIFICATION Spec
INVARIANT MapTotal
INVARIANT DefaultsApplied
