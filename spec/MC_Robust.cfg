SPECIFICATION Spec
CONSTANTS
  LaneLen = 8
  MaxVal = 2
INVARIANT Equivariant
INVARIANT SignFree
INVARIANT ConstantZero
INVARIANT NonNegative
