------------------------------- MODULE Bits -------------------------------
(* Bit packing of 1-, 2- and 4-bit samples into bytes (sigpyproc.io.bits and   *)
(* the twelve pack/unpack kernels).  Pure definitions plus the call-level       *)
(* validation rules; used by Stream, ReadPlan, Writer (C01, C02, C03, C04).     *)
EXTENDS Util

Depths  == {1, 2, 4}
Orders  == {"big", "little"}
Fact(nbits) == 8 \div nbits

(* field j (0-based, in output order) of byte b *)
Field(b, nbits, order, j) ==
  LET k == Fact(nbits)
      sh == IF order = "big" THEN (k - 1 - j) * nbits ELSE j * nbits
  IN (b \div Pow2(sh)) % Pow2(nbits)

UnpackByte(b, nbits, order) == [j \in 1..Fact(nbits) |-> Field(b, nbits, order, j - 1)]

Unpack(bytes, nbits, order) ==
  [i \in 1..(Len(bytes) * Fact(nbits)) |->
      Field(bytes[((i - 1) \div Fact(nbits)) + 1], nbits, order, (i - 1) % Fact(nbits))]

(* pack one group of k fields into a byte *)
RECURSIVE PackGroup(_, _, _, _)
PackGroup(v, nbits, order, j) ==
  IF j > Len(v) THEN 0
  ELSE LET k == Len(v)
           sh == IF order = "big" THEN (k - j) * nbits ELSE (j - 1) * nbits
       IN v[j] * Pow2(sh) + PackGroup(v, nbits, order, j + 1)

Pack(vals, nbits, order) ==
  [i \in 1..(Len(vals) \div Fact(nbits)) |->
      PackGroup(SubSeq(vals, (i - 1) * Fact(nbits) + 1, i * Fact(nbits)), nbits, order, 1)]

DefaultOrder(nbits) == IF nbits = 1 THEN "little" ELSE "big"

(* ---- call-level contract: the four validation rules ------------------------------- *)
(* a call is described by: dtype_ok, nbits, order string's first letter ("" if empty),   *)
(* input size, output buffer size (-1 = no buffer supplied).                            *)
CallOutcome(api, dtypeOk, nbits, orderHead, insize, outsize) ==
  IF ~dtypeOk THEN "ValueError"
  ELSE IF nbits \notin Depths THEN "ValueError"
  ELSE IF orderHead \notin {"b", "l"} THEN "ValueError"
  ELSE IF outsize # -1 /\ api = "unpack" /\ outsize # insize * Fact(nbits) THEN "ValueError"
  ELSE IF outsize # -1 /\ api = "pack" /\ outsize # insize \div Fact(nbits) THEN "ValueError"
  ELSE "ok"

OrderOf(head) == IF head = "b" THEN "big" ELSE "little"

=============================================================================
