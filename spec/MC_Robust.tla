------------------------------ MODULE MC_Robust ------------------------------
(* The definitions of Robust satisfy the relations C15 demands, over every lane of Len values in  *)
(* 0..MaxVal (ties, constants and zero-MAD lanes all occur): positive integer scaling and shifts,   *)
(* sign flip, constants.                                                                            *)
EXTENDS Robust, TLC
CONSTANTS LaneLen, MaxVal
VARIABLES xs, k, b
vars == <<xs, k, b>>
Init == xs \in [1..LaneLen -> 0..MaxVal] /\ k \in {1, 2, 3} /\ b \in {0, 5}
Next == UNCHANGED vars
Spec == Init /\ [][Next]_vars
Q == 256
Map == [i \in 1..LaneLen |-> k * xs[i] + b]
Neg == [i \in 1..LaneLen |-> 9 - xs[i]]
Equivariant == \A m \in Defined : Abs(ValQ(m, Map, Q) - k * ValQ(m, xs, Q)) <= 2 * k + 2
SignFree    == \A m \in Defined : Abs(ValQ(m, Neg, Q) - ValQ(m, xs, Q)) <= 1
ConstantZero == (\A i \in 1..LaneLen : xs[i] = xs[1]) => \A m \in Defined : ValQ(m, xs, Q) = 0
NonNegative == \A m \in Defined : ValQ(m, xs, Q) >= 0
=============================================================================
