--------------------------- MODULE Trace_Dispersion ---------------------------
(* Code -> spec binding for C09.  "delays" events: what Header.get_dmdelays reports for a band,   *)
(* a DM and a reference choice must lie in Dispersion!DelaySet (the exact law, nearest rounding,   *)
(* two values only inside the float32 band of a tie).  "path" events: the output of each          *)
(* dedispersion entry point on integer data must be the index map of Dispersion applied with the   *)
(* delays the library reports for the DM the output claims, over the full declared length.         *)
EXTENDS Dispersion, Moments, TraceKit

VARIABLES tid, l
tvars == <<tid, l>>
Ev == Traces[tid].ev

DelaysOK(e) ==
  /\ e.outcome = "ok" /\ Len(e.obs) = e.C
  /\ \A c \in 1..e.C :
       LET f2 == Chan2(e.fch1, e.foff, c - 1)
           r2 == IF e.kind = "num" THEN e.ref2 ELSE Ref2(e.kind, e.fch1, e.foff, e.C) IN
       /\ e.obs[c] \in DelaySet(f2, r2, e.p, e.r, e.qn, e.qd)
       /\ Abs(e.obsq[c] - ScaleR(<<DelayN(f2, r2, e.p, e.r, e.qn, e.qd), DelayD(f2, r2, e.p, e.r, e.qn, e.qd)>>, 64))
             <= 3 + (TermSum(f2, r2, e.p, e.r, e.qn, e.qd) \div DelayD(f2, r2, e.p, e.r, e.qn, e.qd)) \div 1024

AllPos(dm) == MaxSeq([i \in 1..Len(dm) |-> MaxPos(dm[i])])
AllNeg(dm) == MinSeq([i \in 1..Len(dm) |-> MinNeg(dm[i])])

PathOK(e) ==
  /\ e.outcome = "ok"
  /\ CASE e.path = "roll"     -> e.out = Roll(e.X, e.del) /\ e.nhdr = Len(e.X[1])
       [] e.path = "valid"    -> e.out = RollValid(e.X, e.del) /\ e.nhdr = ValidLen(e.X, e.del)
       [] e.path = "rollback" -> e.out = e.X
       [] e.path = "stream"   -> e.out = << StreamDD(e.X, e.del) >> /\ e.nhdr = Len(e.X[1]) - MaxSeq(e.del)
       [] e.path = "readdd"   -> e.out = ReadDD(e.X, e.s, e.m, e.del) /\ e.nhdr = e.m
       [] e.path = "dmt"      -> /\ Len(e.out) = Len(e.delmat)
                                 /\ \A i \in 1..Len(e.delmat) : e.out[i] = SumCols(Roll(e.X, e.delmat[i]))
                                 /\ e.nhdr = Len(e.X[1])
       [] e.path = "dmtvalid" -> LET L == Len(e.X[1]) - (AllPos(e.delmat) - AllNeg(e.delmat)) IN
                                 /\ Len(e.out) = Len(e.delmat) /\ e.nhdr = L
                                 /\ \A i \in 1..Len(e.delmat) :
                                      e.out[i] = [t \in 1..L |-> SumSeq([c \in 1..Len(e.X) |-> e.X[c][t + e.delmat[i][c] - AllNeg(e.delmat)]])]

EvOK(e) == IF e.a = "delays" THEN DelaysOK(e) ELSE PathOK(e)
TInit == tid \in 1..NT /\ l = 1 /\ MarkInit(tid)
TNext == /\ l <= Len(Ev)
         /\ Judge(tid, l, EvOK(Ev[l]))
         /\ l' = l + 1 /\ UNCHANGED tid /\ Mark(tid, l + 1)
TSpec == TInit /\ [][TNext]_tvars
=============================================================================
