SPECIFICATION Spec
CONSTANTS
  MaxC = 6
  Bad = "none"
INVARIANT NaturalMeetsRequirement
