SPECIFICATION Spec
CONSTANTS
  MaxN = 40
INVARIANT ReadInFile
INVARIANT FitsInBlock
INVARIANT WholeDecim
INVARIANT PulseCentred
INVARIANT CoversSweep
INVARIANT Placement
INVARIANT EveryFileSampleInWindowIsRead
