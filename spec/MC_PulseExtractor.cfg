SPECIFICATION Spec
CONSTANTS
  MaxN = 24
INVARIANT ReadInFile
INVARIANT FitsInBlock
INVARIANT WholeDecim
INVARIANT PulseCentred
INVARIANT CoversSweep
INVARIANT Placement
INVARIANT EveryFileSampleInWindowIsRead
