----------------------------- MODULE Dispersion -----------------------------
(* C09: one dispersion law, and the five dedispersion entry points as index maps.            *)
(*                                                                                            *)
(* (i) The law, exactly.  Frequencies are integers in units of 1/2 MHz (f2 = 2f), the DM is   *)
(* p/r pc cm^-3, the sampling time is 4.148808*qn/qd s, so that K/tsamp = 1000*qd/qn and      *)
(*     delay = 4000*p*qd*(fr2^2 - f2^2) / (r*qn*f2^2*fr2^2)      samples, a rational N/D.      *)
(* "Rounded to the nearest sample, within float32 evaluation error of a rounding boundary":   *)
(* DelaySet is the set of integers the law allows - one value, or two when the exact value     *)
(* lies within 2^-17 * (|t1|+|t2|) of a half-integer (t1, t2 the two terms).                   *)
(*                                                                                            *)
(* (ii) The paths.  X is a block X[c][t] (c in 1..C, t in 1..n, both 1-based here), del the    *)
(* per-channel delays the library reports.                                                     *)
EXTENDS Util

DelayN(f2, fr2, p, r, qn, qd) == 4000 * p * qd * (fr2 * fr2 - f2 * f2)
DelayD(f2, fr2, p, r, qn, qd) == r * qn * f2 * f2 * fr2 * fr2                  \* > 0
TermSum(f2, fr2, p, r, qn, qd) == 4000 * Abs(p) * qd * (fr2 * fr2 + f2 * f2)  \* (|t1|+|t2|) * DelayD

DelaySet(f2, fr2, p, r, qn, qd) ==
  LET N == DelayN(f2, fr2, p, r, qn, qd)
      D == DelayD(f2, fr2, p, r, qn, qd)
      k == (2 * N + D) \div (2 * D)                 \* floor(x + 1/2)
      rem == (2 * N + D) % (2 * D)                  \* (x + 1/2 - k) * 2D, in [0, 2D)
      band == TermSum(f2, fr2, p, r, qn, qd) \div 65536 + 1      \* 2D * eps,  eps = 2^-17 * (|t1|+|t2|)
  IN {k} \cup (IF rem <= band THEN {k - 1} ELSE {}) \cup (IF 2 * D - rem <= band THEN {k + 1} ELSE {})

(* reference frequency choices, in half-MHz units; channel c (0-based) has centre fch1 + c*foff *)
Chan2(fch1, foff, c) == 2 * (fch1 + c * foff)
Ref2(kind, fch1, foff, C) ==
  CASE kind = "ch1"    -> 2 * fch1
    [] kind = "max"    -> IF foff < 0 THEN 2 * fch1 ELSE 2 * (fch1 + (C - 1) * foff)
    [] kind = "min"    -> IF foff < 0 THEN 2 * (fch1 + (C - 1) * foff) ELSE 2 * fch1
    [] kind = "center" -> 2 * fch1 - foff + foff * C          \* ftop + foff*C/2, ftop = fch1 - foff/2

(* ------------------------------- index maps ------------------------------------------ *)
Wrap(t, n) == ((t - 1) % n) + 1                       \* 1-based cyclic index
Roll(X, del) == [c \in 1..Len(X) |-> [t \in 1..Len(X[1]) |-> X[c][Wrap(t + del[c], Len(X[1]))]]]
MaxPos(del) == Max(0, MaxSeq(del))
MinNeg(del) == Min(0, MinSeq(del))
ValidLen(X, del) == Len(X[1]) - (MaxPos(del) - MinNeg(del))
RollValid(X, del) == [c \in 1..Len(X) |-> [t \in 1..ValidLen(X, del) |-> X[c][t + del[c] - MinNeg(del)]]]
SumCols(Y) == [t \in 1..Len(Y[1]) |-> SumSeq([c \in 1..Len(Y) |-> Y[c][t]])]
StreamDD(X, del) == [t \in 1..(Len(X[1]) - MaxSeq(del)) |-> SumSeq([c \in 1..Len(X) |-> X[c][t + del[c]]])]
ReadDD(X, s, m, del) == [c \in 1..Len(X) |-> [t \in 1..m |-> X[c][s + t + del[c]]]]          \* s 0-based start
=============================================================================
