--------------------------- MODULE Trace_RFIMask ---------------------------
(* Code -> spec binding for C16.                                                               *)
(*  - object histories: apply_mask / apply_method / apply_funcn in any order on a real RFIMask   *)
(*    built from integer statistics vectors; after every call the four masks are logged and     *)
(*    must be the next state of the RFIMask machine (outliers: Must <= observed <= May);         *)
(*    to_file / from_file must reproduce all arrays, the threshold and the header;               *)
(*  - clean_rfi end to end: the returned mask is the union of its parts, the user and custom     *)
(*    parts are the defined ones, and every sample of the cleaned file is the mask value in       *)
(*    masked channels and the input elsewhere (Transforms!DefMask), for every gulp.               *)
EXTENDS RFIMask, Transforms, TraceKit

VARIABLES tid, l, user, stats, custom, chan
tvars == <<tid, l, user, stats, custom, chan>>
H  == Traces[tid].hdr
Ev == Traces[tid].ev
C  == H.nchans
SetOf(s) == {s[i] : i \in 1..Len(s)}

Logged(e) == SetOf(e.user) = user' /\ SetOf(e.stats) = stats' /\ SetOf(e.custom) = custom' /\ SetOf(e.chan) = chan'

TRanges(e) == /\ user' = UserMask(H.labels, e.L) /\ chan' = chan \cup user' /\ UNCHANGED <<stats, custom>>
              /\ Logged(e)
TMethod(e) ==
  LET must == OutMust(e.m, H.var, e.tn, e.td) \cup OutMust(e.m, H.skew, e.tn, e.td) \cup OutMust(e.m, H.kurt, e.tn, e.td)
      may  == OutMay(e.m, H.var, e.tn, e.td) \cup OutMay(e.m, H.skew, e.tn, e.td) \cup OutMay(e.m, H.kurt, e.tn, e.td) IN
  /\ stats' = SetOf(e.stats)
  /\ must \subseteq stats' /\ stats' \subseteq may
  /\ chan' = chan \cup stats' /\ UNCHANGED <<user, custom>>
  /\ Logged(e)
TFuncn(e) == /\ custom' = Custom(e.g, chan, C) /\ chan' = chan \cup custom' /\ UNCHANGED <<user, stats>>
             /\ Logged(e)
TSaveLoad(e) == /\ e.same_arrays /\ e.same_threshold /\ e.same_header
                /\ UNCHANGED <<user, stats, custom, chan>> /\ Logged(e)

(* clean_rfi: one self-contained event *)
TClean(e) ==
  LET u == SetOf(e.user) s == SetOf(e.stats) cu == SetOf(e.custom) ch == SetOf(e.chan)
      mask == [c \in 1..C |-> c \in ch] IN
  /\ e.outcome = "ok"
  /\ u = UserMask(H.labels, e.L)
  /\ cu = Custom(e.g, u \cup s, C)
  /\ ch = u \cup s \cup cu
  /\ e.out = DefMask(H.vals, C, e.start, e.nsamps, mask, e.value).vals
  /\ e.out_nchans = C /\ e.out_datalen * 8 = e.nsamps * C * H.nbits
  /\ UNCHANGED <<user, stats, custom, chan>>

TInit == tid \in 1..NT /\ l = 1 /\ user = {} /\ stats = {} /\ custom = {} /\ chan = {} /\ MarkInit(tid)
TNext == /\ l <= Len(Ev)
         /\ LET e == Ev[l] IN
              \/ e.a = "ranges" /\ TRanges(e)
              \/ e.a = "method" /\ TMethod(e)
              \/ e.a = "funcn" /\ TFuncn(e)
              \/ e.a = "saveload" /\ TSaveLoad(e)
              \/ e.a = "clean" /\ TClean(e)
         /\ l' = l + 1 /\ UNCHANGED tid /\ Mark(tid, l + 1)
TSpec == TInit /\ [][TNext]_tvars
Monotone == [][chan \subseteq chan']_tvars
=============================================================================
