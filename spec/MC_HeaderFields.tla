--------------------------- MODULE MC_HeaderFields ---------------------------
EXTENDS HeaderFields
CONSTANTS Pinned
VARIABLES f, a
vars == <<f, a>>
(* every declination with |a| < 1 degree 2' in steps of 7.77 arcsec, plus carries and large angles, both signs *)
Grid == {x * 777 : x \in -480..480} \cup {-32399999, -32400000 + 1, 32399999, -359999, 359999, -360000, 360000,
                                          -5999, 5999, -6000, 6000, -99, 99, -100, 100, 0, -1, 1, -21599999, 21599999}
Init == f \in Frames /\ a \in Grid
Next == UNCHANGED vars
Spec == Init /\ [][Next]_vars
FrameRoundTrip == (IF Pinned THEN PinnedFrameOf(Flags(f)) ELSE FrameOf(Flags(f))) = f
AngleRoundTrip == (IF Pinned THEN PinnedAngleOf(NegOf(a), DigitsOf(a)) ELSE AngleOf(NegOf(a), DigitsOf(a))) = a
=============================================================================
