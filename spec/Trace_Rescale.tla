---------------------------- MODULE Trace_Rescale ----------------------------
(* Binds Rescale.tla to sigpyproc.io.rescale.Rescale: a history of execute(block) calls with the     *)
(* object's counters, sums, offset/scale (fixed point) and the first output values logged after       *)
(* every call must be a behaviour of the INTENDED machine.                                            *)
EXTENDS Rescale, Moments, TraceKit

VARIABLES tid, l
tvars == <<tid, l, n, s1, s2, first, cn, cs1, cs2, seen>>
H  == Traces[tid].hdr
Ev == Traces[tid].ev

(* offset = -mean (q-scaled); scale = 1/sqrt(var) or 1 when the variance is ~0 *)
OffsetOK(e, c) == cn' > 0 => Abs(e.offq[c] + (cs1'[c] * e.q) \div cn') <= 2
ScaleOK(e, c) ==
  cn' > 0 =>
    LET vnum == cn' * cs2'[c] - cs1'[c] * cs1'[c] IN          \* var = vnum / cn^2
    IF vnum = 0 THEN e.scaleq[c] = e.q
    ELSE Abs(e.scaleq[c] - (cn' * e.q * 256) \div ISqrt(vnum * 65536)) <= 2 + e.scaleq[c] \div 200

TExecute(e) ==
  /\ Execute(e.block)
  /\ e.isample = n' /\ e.sum = s1' /\ e.sumsq = s2'
  /\ \A c \in 1..H.C : OffsetOK(e, c) /\ ScaleOK(e, c)

TInit == /\ tid \in 1..NT /\ l = 1 /\ MarkInit(tid)
         /\ n = 0 /\ s1 = [c \in 1..Traces[tid].hdr.C |-> 0] /\ s2 = [c \in 1..Traces[tid].hdr.C |-> 0] /\ first = TRUE /\ seen = 0
         /\ cn = 0 /\ cs1 = [c \in 1..Traces[tid].hdr.C |-> 0] /\ cs2 = [c \in 1..Traces[tid].hdr.C |-> 0]
TNext == /\ l <= Len(Ev)
         /\ TExecute(Ev[l])
         /\ l' = l + 1 /\ UNCHANGED tid /\ Mark(tid, l + 1)
TSpec == TInit /\ [][TNext]_tvars
=============================================================================
