SPECIFICATION Spec
CONSTANTS
  MaxC = 6
  Bad = "subband_pinned"
INVARIANT NaturalMeetsRequirement
