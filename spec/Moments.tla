------------------------------ MODULE Moments ------------------------------
(* Per-channel statistics (ChannelStats, compute_online_moments, add_online_moments).   *)
(* The abstract accumulator is the ADDITIVE tuple of exact integer power sums           *)
(*   [n, s1, s2, s3, s4, mn, mx];  pushing a chunk or merging two accumulators adds     *)
(* them, so independence of chunking/merging is a theorem of the abstract state, which  *)
(* MC_Moments confirms on every composition and split.  The implementation keeps        *)
(* central sums (count, m1, M2, M3, M4); the refinement mapping to the abstract state   *)
(* is Central(a) below, in integers scaled by powers of n so that no division occurs.   *)
EXTENDS Util

Empty == [n |-> 0, s1 |-> 0, s2 |-> 0, s3 |-> 0, s4 |-> 0, mn |-> 0, mx |-> 0]

OfSeq(xs) ==      \* accumulator of a non-empty chunk
  [n |-> Len(xs), s1 |-> SumSeq(xs), s2 |-> SumSeq([i \in 1..Len(xs) |-> xs[i] * xs[i]]),
   s3 |-> SumSeq([i \in 1..Len(xs) |-> xs[i] * xs[i] * xs[i]]),
   s4 |-> SumSeq([i \in 1..Len(xs) |-> xs[i] * xs[i] * xs[i] * xs[i]]),
   mn |-> MinSeq(xs), mx |-> MaxSeq(xs)]

OfSeqBasic(xs) ==  \* first two power sums only (third and fourth overflow 32 bits on 8-bit data)
  [n |-> Len(xs), s1 |-> SumSeq(xs), s2 |-> SumSeq([i \in 1..Len(xs) |-> xs[i] * xs[i]]),
   s3 |-> 0, s4 |-> 0, mn |-> MinSeq(xs), mx |-> MaxSeq(xs)]

Merge(a, b) ==
  IF a.n = 0 THEN b ELSE IF b.n = 0 THEN a ELSE
  [n |-> a.n + b.n, s1 |-> a.s1 + b.s1, s2 |-> a.s2 + b.s2, s3 |-> a.s3 + b.s3, s4 |-> a.s4 + b.s4,
   mn |-> Min(a.mn, b.mn), mx |-> Max(a.mx, b.mx)]

Push(a, xs) == IF xs = <<>> THEN a ELSE Merge(a, OfSeq(xs))

(* central sums scaled to integers:  A = n*M2,  B3 = n^2*M3,  B4 = n^3*M4  *)
A(a)  == a.n * a.s2 - a.s1 * a.s1
B3(a) == a.n * a.n * a.s3 - 3 * a.n * a.s1 * a.s2 + 2 * a.s1 * a.s1 * a.s1
B4(a) == a.n * a.n * a.n * a.s4 - 4 * a.n * a.n * a.s1 * a.s3 + 6 * a.n * a.s1 * a.s1 * a.s2
         - 3 * a.s1 * a.s1 * a.s1 * a.s1

(* derived statistics as exact rationals <<num, den>> (den > 0):
     mean = s1/n      var = A/n^2      kurtosis = B4/A^2 - 3      skew^2 = B3^2/A^3, sign(skew) = sign(B3) *)
MeanR(a) == <<a.s1, a.n>>
VarR(a)  == <<A(a), a.n * a.n>>
KurtR(a) == IF A(a) = 0 THEN <<0, 1>> ELSE <<B4(a) - 3 * A(a) * A(a), A(a) * A(a)>>

(* integer square root (floor), by bisection *)
RECURSIVE ISqrtB(_, _, _)
ISqrtB(x, lo, hi) == IF hi - lo <= 1 THEN lo
                     ELSE LET mid == (lo + hi) \div 2 IN
                          IF mid * mid <= x THEN ISqrtB(x, mid, hi) ELSE ISqrtB(x, lo, mid)
ISqrt(x) == IF x <= 0 THEN 0 ELSE ISqrtB(x, 0, Min(x, 46340) + 1)

(* skew in fixed point with Q = 64:  skew = B3 / A^1.5 ;  sqrt(A) ~ ISqrt(A * 65536) / 256 *)
SkewQ64(a) == IF A(a) = 0 THEN 0
              ELSE (B3(a) * 64 * 256) \div (A(a) * ISqrt(A(a) * 65536))

(* |obs/q - num/den| <= (tol+1)/q, where obsq = round(obs*q); evaluated by floor division so that
   no product exceeds 32 bits (den > 0, q > 0; num may be negative: \div floors, % is non-negative) *)
ScaleR(r, q) == (r[1] \div r[2]) * q + ((r[1] % r[2]) * q) \div r[2]
Near(obsq, q, r, tolq) == Abs(obsq - ScaleR(r, q)) <= tolq + 1
=============================================================================
