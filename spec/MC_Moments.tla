----------------------------- MODULE MC_Moments -----------------------------
(* Every composition of a stream (length <= MaxLen over values 0..MaxVal) into consecutive  *)
(* chunks pushed into one accumulator, and every split of the stream between two            *)
(* accumulators merged in either order, yields the accumulator of the whole stream.          *)
EXTENDS Moments, TLC
CONSTANTS MaxLen, MaxVal
VARIABLES stream, pos, acc
vars == <<stream, pos, acc>>

Streams == UNION {[1..n -> 0..MaxVal] : n \in 1..MaxLen}
Init == stream \in Streams /\ pos = 0 /\ acc = Empty
PushChunk(n) == /\ pos + n <= Len(stream)
                /\ acc' = Push(acc, SubSeq(stream, pos + 1, pos + n))
                /\ pos' = pos + n /\ UNCHANGED stream
Next == \E n \in 1..MaxLen : PushChunk(n)
Spec == Init /\ [][Next]_vars

ChunkingFree == acc = (IF pos = 0 THEN Empty ELSE OfSeq(SubSeq(stream, 1, pos)))
MergeFree == \A s \in 1..(Len(stream) - 1) :
               LET a == OfSeq(SubSeq(stream, 1, s))  b == OfSeq(SubSeq(stream, s + 1, Len(stream))) IN
               Merge(a, b) = OfSeq(stream) /\ Merge(b, a) = OfSeq(stream)
Constant == (\A i \in 1..Len(stream) : stream[i] = stream[1]) => (A(OfSeq(stream)) = 0 /\ B3(OfSeq(stream)) = 0)
NonNegVar == A(OfSeq(stream)) >= 0
=============================================================================
