SPECIFICATION Spec
CONSTANTS
  Pinned = TRUE
INVARIANT FrameRoundTrip
