SPECIFICATION Spec
CONSTANTS
  Pinned = FALSE
INVARIANT FrameRoundTrip
INVARIANT AngleRoundTrip
