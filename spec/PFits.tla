-------------------------------- MODULE PFits --------------------------------
(* Search-mode PSRFITS reading (PFITSReader, PFITSFile) - C18.                                   *)
(* Storage: S sub-integrations (rows of the SUBINT table) of NSBLK samples x npol x C raw          *)
(* integers, with per-row scales/offsets (per pol, chan), weights (per chan), a zero offset, a      *)
(* polarisation layout and a channel order.  Calibration, polarisation selection and the flip to    *)
(* descending frequency give the value stream Whole; every positional read must be a slice of it.   *)
EXTENDS PlanArith

(* raw[s][t][p][c], scl[s][p][c], offs[s][p][c], wts[s][c]; all 1-based sequences *)
CalVal(f, s, t, p, c) == ((f.raw[s][t][p][c] - f.zo) * f.scl[s][p][c] + f.offs[s][p][c]) * f.wts[s][c]
(* total intensity of one sample/channel (before the flip); Coherence (AA, BB, CR, CI) sums the first two
   and carries a factor 1/sqrt(2) that is applied by the comparison, not here *)
Intensity(f, s, t, c) == IF f.pol = "Coherence" THEN CalVal(f, s, t, 1, c) + CalVal(f, s, t, 2, c) ELSE CalVal(f, s, t, 1, c)
(* channel index in file order for output channel c (1-based, descending frequency) *)
FileChan(f, c) == IF f.ascending THEN f.C - c + 1 ELSE c
(* the whole file as a flat value sequence, time-major, channels in descending frequency *)
WholeVals(f) ==
  [k \in 1..(f.nstot * f.C) |->
     LET t == (k - 1) \div f.C
         c == ((k - 1) % f.C) + 1
     IN Intensity(f, (t \div f.nsblk) + 1, (t % f.nsblk) + 1, FileChan(f, c))]
NSamp(f) == f.nstot          \* NSTOT: the valid samples; the last row may be only partly filled (nstot <= S * nsblk)

(* code-shaped read_block(start, n): which table rows are read and which samples of them are kept.
   Variant "pinned": the number of rows is computed from n alone. *)
RowsRead(nsblk, start, n, variant) ==
  IF variant = "pinned" THEN CeilDiv(n, nsblk) ELSE CeilDiv((start % nsblk) + n, nsblk)
BlockIds(nsblk, S, start, n, variant) ==          \* sample indices delivered (or "short" when the rows do not cover the request)
  LET first == start \div nsblk
      rows  == RowsRead(nsblk, start, n, variant)
      have  == rows * nsblk
      off   == start % nsblk
  IN IF off + n > have \/ first + rows > S THEN <<"short">>
     ELSE Ids(first * nsblk + off, n)
=============================================================================
