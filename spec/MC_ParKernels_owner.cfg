SPECIFICATION Spec
CONSTANTS
  Which = "owner"
INVARIANT Deterministic
INVARIANT OwnedInv
