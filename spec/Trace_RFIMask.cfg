SPECIFICATION TSpec
PROPERTY Monotone
POSTCONDITION Report
CHECK_DEADLOCK FALSE
