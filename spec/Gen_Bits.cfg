SPECIFICATION GSpec
CHECK_DEADLOCK FALSE
