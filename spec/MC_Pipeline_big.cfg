SPECIFICATION Spec
CONSTANTS
  MaxN = 7
  MaxC = 2
  MaxDelay = 2
INVARIANT ResultIsDef
INVARIANT NoOutOfBounds
INVARIANT NeverRejected
INVARIANT PrefixIsDef
