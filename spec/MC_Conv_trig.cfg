SPECIFICATION Spec
CONSTANTS
  MaxLen = 1
  MaxVal = 0
  MaxM = 96
  Mode = "trig"
INVARIANT GoodSizeOK
INVARIANT UnitCircle
INVARIANT Axes
INVARIANT Conjugate
