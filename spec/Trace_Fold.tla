------------------------------ MODULE Trace_Fold ------------------------------
(* Code -> spec binding for C11: every recorded fold (Filterbank.fold for several gulps,        *)
(* TimeSeries.fold, and the kernel called directly) must put every sample in the cell the       *)
(* definition of Fold gives: kernel sums and hit counts exactly, public cubes as sum/count      *)
(* (float32, fixed point q = 64), empty cells as NaN.                                            *)
EXTENDS Fold, TraceKit

VARIABLES tid, l
tvars == <<tid, l>>
Ev == Traces[tid].ev

NoTies(g) == g.pn * g.kd % 2 = 1
(* ... or every tie is exact in floating point as well: no acceleration, period/tsamp = 2*nbins with nbins a power of two, so that
   phase*nbins + 1/2 is t/2 + 1/2 exactly and int() of it is the rational truncation the model computes (edge samples go up) *)
ExactTies(g) == g.kn = 0 /\ g.pd = 1 /\ g.pn = 2 * g.nbins /\ g.nbins \in {2, 4, 8}

EvOK(e) ==
  LET g == e.g
      def == DefFoldFast(g, e.vals) IN
  /\ e.outcome = "ok"
  /\ (NoTies(g) \/ ExactTies(g))
  /\ Len(e.cells) = NCells(g)
  /\ IF e.api = "kernel"
     THEN \A k \in 1..NCells(g) : e.cells[k].sum = def[k][1] /\ e.cells[k].count = def[k][2]
     ELSE \A k \in 1..NCells(g) :
            IF def[k][2] = 0 THEN e.cells[k].nan
            ELSE /\ ~e.cells[k].nan
                 /\ Abs(e.cells[k].meanq * def[k][2] - def[k][1] * 64) <= def[k][2] * (1 + Abs(e.cells[k].meanq) \div 100000)

TInit == tid \in 1..NT /\ l = 1 /\ MarkInit(tid)
TNext == /\ l <= Len(Ev)
         /\ Judge(tid, l, EvOK(Ev[l]))
         /\ l' = l + 1 /\ UNCHANGED tid /\ Mark(tid, l + 1)
TSpec == TInit /\ [][TNext]_tvars
=============================================================================
