------------------------------ MODULE Sigpyproc ------------------------------
(* Top-level composition: THE FILES ON DISK PLUS AT MOST ONE RUNNING OPERATION.                     *)
(* One streaming file-to-file transform is executed end to end at the BYTE level, through every      *)
(* layer the lower modules specify separately:                                                       *)
(*   input set  : 1..3 files, each a header and a data section of whole samples      (Stream)        *)
(*   plan       : block layout of PlanArith for (gulp, start, nsamps)                (ReadPlan/C01)  *)
(*   read       : seek to the block, creadinto across file boundaries with the (ifile, off) cursor    *)
(*                of FileReader                                                       (Stream/C02)    *)
(*   unpack     : 1/2/4-bit fields                                                    (Bits/C03)      *)
(*   kernel     : extract | invert | mask on the block                                (Transforms/C07)*)
(*   pack+write : append at the declared depth; header first                          (Writer/C04,C20)*)
(*   crash      : at any step; the reader's view of the surviving output              (C20)           *)
(* and the result is compared with ONE whole-array statement: the output file is                      *)
(*   header \o Pack(Def_op(Unpack(concatenation of the data sections) restricted to the range)).      *)
EXTENDS Stream, Transforms, PlanArith

CONSTANTS MaxN, NBits, C, HLen, Variant     \* Variant "fixed" | "fullbuf" (pinned commit: every creadinto asks for the full gulp buffer)
ASSUME (C * NBits) % 8 = 0

VARIABLES fs,      \* input data sections (bytes), one per file
          run,     \* [op, gulp, start, nsamps, mask]
          pc,      \* "prep" | "stream" | "returned" | "crashed"
          k,       \* next block
          ifile, off,   \* FileReader cursor
          out      \* bytes of the output file
vars == <<fs, run, pc, k, ifile, off, out>>

SB == SampleBytes(C, NBits)
Order == DefaultOrder(NBits)
Ops == {"extract", "invert", "mask"}
Header == [i \in 1..HLen |-> 200 + i]

(* all ways of cutting N whole samples into 1..3 files; bytes are pseudo-random but fixed: (7*i + 3) mod 256 *)
Splits(n) == {<<n>>} \cup {<<a, n - a>> : a \in 0..n}
             \cup UNION {{<<a, b, n - a - b>> : b \in 0..(n - a)} : a \in 0..n}
MkFiles(split) == [f \in 1..Len(split) |->
                     [j \in 1..(split[f] * SB) |-> (7 * (SumSeq(SubSeq(split, 1, f - 1)) * SB + j) + 3) % 256]]
Masks == [1..C -> BOOLEAN]

Init == /\ \E n \in 1..MaxN : \E s \in Splits(n) : fs = MkFiles(s)
        /\ run \in [op : Ops, gulp : 1..(MaxN + 1), start : 0..MaxN, nsamps : 1..MaxN, mask : Masks]
        /\ run.start + run.nsamps <= Len(DataOf(fs)) \div SB
        /\ (run.op = "mask" \/ run.mask = [c \in 1..C |-> FALSE])
        /\ pc = "prep" /\ k = 0 /\ ifile = 1 /\ off = 0 /\ out = <<>>

D == DataOf(fs)
N == Len(D) \div SB
V == IF NBits = 8 THEN D ELSE Unpack(D, NBits, Order)              \* sample values of the whole set
Plan == [N |-> N, start |-> run.start, nsamps |-> run.nsamps, gulp |-> run.gulp, skip |-> 0]
InRange == run.start + run.nsamps <= N /\ (run.op = "mask" \/ run.mask = [c \in 1..C |-> FALSE])

Kernel(vals, len) ==       \* the transform applied to one block of len samples (flat values)
  CASE run.op = "extract" -> vals
    [] run.op = "invert"  -> DefInvert(vals, C, 0, len).vals
    [] run.op = "mask"    -> DefMask(vals, C, 0, len, run.mask, 1).vals
DefOut ==
  CASE run.op = "extract" -> DefExtractSamps(V, C, run.start, run.nsamps).vals
    [] run.op = "invert"  -> DefInvert(V, C, run.start, run.nsamps).vals
    [] run.op = "mask"    -> DefMask(V, C, run.start, run.nsamps, run.mask, 1).vals
Encode(vals) == IF NBits = 8 THEN vals ELSE Pack(vals, NBits, Order)
FinalFile == Header \o Encode(DefOut)

Prep == /\ pc = "prep" /\ InRange
        /\ LET c == CSeek(fs, ifile, off, run.start * SB) IN
           /\ c.outcome = "ok"                                   \* start < N
           /\ ifile' = c.ifile /\ off' = c.off
        /\ out' = Header /\ pc' = "stream" /\ UNCHANGED <<fs, run, k>>

Step == /\ pc = "stream" /\ k < NBlocks(Plan)
        /\ LET len == BlockLen(Plan, k)
               ask == IF Variant = "fullbuf" THEN G(Plan) * SB ELSE len * SB
               r   == CCReadIntoLoop(fs, ifile, off, ask, <<>>)            \* one creadinto (of exactly the block, in the working tree)
               vals == IF NBits = 8 THEN r.bytes ELSE Unpack(r.bytes, NBits, Order)
           IN /\ Len(r.bytes) = len * SB                                    \* "Unexpected number of bytes" otherwise
              /\ out' = out \o Encode(Kernel(vals, len))
              /\ ifile' = r.ifile /\ off' = r.off
        /\ k' = k + 1 /\ UNCHANGED <<fs, run, pc>>

Return == /\ pc = "stream" /\ k = NBlocks(Plan) /\ pc' = "returned" /\ UNCHANGED <<fs, run, k, ifile, off, out>>
Crash  == /\ pc \in {"prep", "stream"} /\ pc' = "crashed" /\ UNCHANGED <<fs, run, k, ifile, off, out>>
Next == Prep \/ Step \/ Return \/ Crash
Spec == Init /\ [][Next]_vars

(* ---- properties of the composition ---- *)
CompleteOnReturn == pc = "returned" => out = FinalFile
PrefixAlways     == InRange => IsPrefixOf(out, FinalFile)
AppendOnly       == [][IsPrefixOf(out, out')]_vars
CursorIsPosition == pc = "stream" =>
                      CumBefore(fs, ifile) + off = (IF k = 0 THEN run.start ELSE BlockStart(Plan, k - 1) + BlockLen(Plan, k - 1)) * SB
NeverShort       == (pc = "stream" /\ k < NBlocks(Plan)) => ENABLED Step             \* every planned block can be read in full
WholeSamples     == (Len(out) - HLen) % SB = 0 \/ out = <<>>
=============================================================================
