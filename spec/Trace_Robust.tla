---------------------------- MODULE Trace_Robust ----------------------------
(* Code -> spec binding for C15.  Every event is self-contained: a base integer array X0          *)
(* (list of lanes along the reduced axis), an affine map x -> (an/ad)*x + b, a method and an        *)
(* axis, with FOUR groups of observations made on the real library:                                  *)
(*    s0   : estimate_scale(X0, method, axis)          per lane                                       *)
(*    s1   : estimate_scale(a*X0+b, method, axis)       per lane                                       *)
(*    l1   : the 1-D estimator applied to each lane of a*X0+b separately                               *)
(*    z0/z1: z-scores of X0 and of a*X0+b (flattened lane by lane), with the scale actually used        *)
(* all in fixed point.  TLC checks equivariance, lane consistency, finiteness, the fallback and,      *)
(* for defined methods, the value of s0 itself.                                                       *)
EXTENDS Robust, TraceKit

VARIABLES tid, l
tvars == <<tid, l>>
Ev == Traces[tid].ev

AbsR(n) == IF n < 0 THEN -n ELSE n
(* |a| * v with a = an/ad, floor-safe *)
MulA(v, an, ad) == (v * AbsR(an)) \div ad

ScaleOK(e) ==
  LET L == Len(e.lanes) IN
  /\ e.outcome = "ok" /\ e.finite
  /\ e.intact                                                          \* an estimator reads its input: the caller's array is unchanged
  /\ Len(e.s0) = L /\ Len(e.s1) = L /\ Len(e.l1) = L
  /\ e.shape_ok                                                        \* result broadcasts against the input
  /\ \A i \in 1..L :
       /\ Abs(e.s1[i] - MulA(e.s0[i], e.an, e.ad))                                      \* scale(a x + b) = |a| scale(x)
             <= e.tol + MulA(e.s0[i], e.an, e.ad) \div e.reldiv + MulA(1, e.an, e.ad)      \* (+ |a| * the half unit lost in logging s0)
       /\ Abs(e.s1[i] - e.l1[i]) <= e.tol + e.l1[i] \div e.reldiv                                          \* axis = per-lane 1-D estimator
       /\ ((e.method \in Defined /\ e.valcheck) =>
             Abs(e.s0[i] - ValQ(e.method, e.lanes[i], e.q)) <= e.tol + 1 + ValQ(e.method, e.lanes[i], e.q) \div 150)

ZOK(e) ==
  LET L == Len(e.lanes) IN
  /\ e.outcome = "ok" /\ e.finite /\ e.shape_ok /\ e.intact
  /\ Len(e.z0) = L /\ Len(e.z1) = L
  /\ \A i \in 1..L :
       /\ Len(e.z0[i]) = Len(e.lanes[i]) /\ Len(e.z1[i]) = Len(e.lanes[i])
       /\ IF e.scale0[i] # 0
          THEN \A k \in 1..Len(e.lanes[i]) :                                   \* z(a x + b) = sign(a) z(x)
                  /\ Abs(e.z1[i][k] - (IF e.an < 0 THEN -e.z0[i][k] ELSE e.z0[i][k])) <= e.tol + Abs(e.z0[i][k]) \div e.reldiv
                  (* ... and z IS (x - location) / scale, the scale being the estimator's own value whatever location method is
                     chosen: z * scale = x - loc  (z in 1/q, scale in 1/65536 -> 1/256; doublemad scales each side separately) *)
                  /\ (e.method # "doublemad" =>
                        LET sq == e.scale0[i] \div 256
                            lhs == e.z0[i][k] * sq
                            rhs == (e.lanes[i][k] * e.q - e.loc0[i]) * 256
                        IN Abs(lhs - rhs) <= sq + Abs(e.z0[i][k]) + 256 * e.tol + Abs(rhs) \div e.reldiv)
          ELSE \A k \in 1..Len(e.lanes[i]) :                                   \* zero scale estimate: unit scale, z = x - loc
                  Abs(e.z0[i][k] - (e.lanes[i][k] * e.q - e.loc0[i])) <= e.tol

EvOK(e) == IF e.a = "scale" THEN ScaleOK(e) ELSE ZOK(e)
TInit == tid \in 1..NT /\ l = 1 /\ MarkInit(tid)
TNext == /\ l <= Len(Ev)
         /\ Judge(tid, l, EvOK(Ev[l]))
         /\ l' = l + 1 /\ UNCHANGED tid /\ Mark(tid, l + 1)
TSpec == TInit /\ [][TNext]_tvars
=============================================================================
