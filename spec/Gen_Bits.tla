------------------------------ MODULE Gen_Bits ------------------------------
(* Exports the complete unpack table computed by TLC from Bits for replay into  *)
(* the implementation (specification -> code direction of C03).                  *)
EXTENDS Bits, Json, IOUtils, TLC, SequencesExt

VARIABLE x

Rows == { [nbits |-> n, order |-> o, byte |-> c, fields |-> UnpackByte(c, n, o)] :
            n \in Depths, o \in Orders, c \in 0..255 }

GInit == x = 0 /\ JsonSerialize(IOEnv.OUT_FILE, [rows |-> SetToSeq(Rows)])
GNext == UNCHANGED x
GSpec == GInit /\ [][GNext]_x
=============================================================================
