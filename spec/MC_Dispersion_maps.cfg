SPECIFICATION Spec
CONSTANTS
  MaxC = 3
  MaxN = 6
  MaxDel = 3
  Mode = "maps"
INVARIANT RollBack
INVARIANT AgreeOnSupport
INVARIANT PulseRestored
