------------------------------ MODULE Pipeline ------------------------------
(* The streaming skeleton shared by every Filterbank method:                            *)
(*      Begin (validate, plan, allocate) -> Step* (one per yielded block) -> Finish      *)
(* Here: the REDUCTIONS (C06) with the consumer index arithmetic of the working tree     *)
(* (ii*gulp, ii*(gulp - maxdelay), slice assignment, +=).  MC_Pipeline checks, for every *)
(* gulp, sub-range and delay vector in the bound, that the step-wise result equals the   *)
(* whole-array definition of Reductions, cell by cell (prefix invariant) and at the end. *)
(* File-to-file transforms use the same skeleton with a writer: see Transforms/Writer.   *)
EXTENDS Reductions, PlanArith

CONSTANTS MaxN, MaxC, MaxDelay

VARIABLES run,   \* [op, N, C, gulp, start, nsamps, del, ch] : the call being executed
          pc,    \* "begin" | "stream" | "done" | "rejected"
          k,     \* index of the next block (ii)
          acc,   \* the accumulator / output array
          oob    \* TRUE once a consumer wrote outside its output array
vars == <<run, pc, k, acc, oob>>

Ops == {"collapse", "bandpass", "chan", "dedisp", "stats"}

(* identity-weighted data: sample t, channel c has value 3^(t*C+c); a sum of samples then encodes
   the multiset that was summed (up to two repeats), so "= Def" means "the right samples, once each" *)
W(N, C) == [i \in 1..(N * C) |-> 3 ^ (i - 1)]

MD(r) == IF r.op = "dedisp" THEN MaxSeq(r.del) ELSE 0
(* the plan the method issues *)
PlanOf(r) ==
  [N |-> r.N, start |-> r.start, nsamps |-> r.nsamps,
   gulp |-> IF r.op = "dedisp" THEN Max(2 * MD(r), r.gulp) ELSE r.gulp,
   skip |-> MD(r)]

Runs == { r \in [op : Ops, N : 1..MaxN, C : 1..MaxC, gulp : 1..(MaxN + 1), start : 0..MaxN, nsamps : 1..MaxN,
                 del : UNION {[1..c -> 0..MaxDelay] : c \in 1..MaxC}, ch : 0..(MaxC - 1)] :
            /\ r.start + r.nsamps <= r.N
            /\ Len(r.del) = r.C /\ r.ch < r.C
            /\ (r.op # "dedisp" => \A c \in 1..r.C : r.del[c] = 0)
            /\ (r.op = "dedisp" => r.del[1] = 0 /\ MaxSeq(r.del) < r.nsamps)
            /\ (r.op # "chan" => r.ch = 0) }

Init == run \in Runs /\ pc = "begin" /\ k = 0 /\ acc = <<>> /\ oob = FALSE

(* power sums of the stats op would overflow on 3^k weights: it gets small distinct-ish values instead *)
V == IF run.op = "stats" THEN [i \in 1..(run.N * run.C) |-> (i * 7) % 5] ELSE W(run.N, run.C)
Zeros(n) == [i \in 1..n |-> 0]

Begin ==
  /\ pc = "begin"
  /\ IF ~Accepted(PlanOf(run))
     THEN pc' = "rejected" /\ UNCHANGED <<run, k, acc, oob>>
     ELSE /\ pc' = "stream"
          /\ acc' = CASE run.op = "collapse" -> Zeros(run.nsamps)
                      [] run.op = "chan"     -> Zeros(run.nsamps)
                      [] run.op = "dedisp"   -> Zeros(run.nsamps - MD(run))
                      [] run.op = "bandpass" -> Zeros(run.C)
                      [] run.op = "stats"    -> [c \in 1..run.C |-> Empty]
          /\ UNCHANGED <<run, k, oob>>

(* consumer for block k: a = first sample, len = samples in the block, d = its data *)
Consume(r, p, kk, a, len, d) ==
  LET md == MD(r) IN
  CASE r.op = "collapse" ->
         LET off == kk * r.gulp IN                                 \* kernels.extract_tim(..., ii * gulp)
         [j \in 1..Len(acc) |-> IF j - 1 - off >= 0 /\ j - 1 - off < len
                                 THEN SumSeq([c \in 1..r.C |-> d[(j - 1 - off) * r.C + c]]) ELSE acc[j]]
    [] r.op = "chan" ->
         LET off == kk * r.gulp IN                                 \* tim_ar[ii*gulp : ...] = column
         [j \in 1..Len(acc) |-> IF j - 1 - off >= 0 /\ j - 1 - off < len
                                 THEN d[(j - 1 - off) * r.C + r.ch + 1] ELSE acc[j]]
    [] r.op = "dedisp" ->
         LET off == kk * (p.gulp - md) IN                          \* ii * (gulp - max_delay), gulp already maxed
         [j \in 1..Len(acc) |-> acc[j] + (IF j - 1 - off >= 0 /\ j - 1 - off < len - md
                                           THEN SumSeq([c \in 1..r.C |-> d[(j - 1 - off + r.del[c]) * r.C + c]])
                                           ELSE 0)]
    [] r.op = "bandpass" ->
         [c \in 1..r.C |-> acc[c] + SumSeq([i \in 1..len |-> d[(i - 1) * r.C + c]])]
    [] r.op = "stats" ->
         [c \in 1..r.C |-> Push(acc[c], [i \in 1..len |-> d[(i - 1) * r.C + c]])]

WritesOutside(r, p, kk, len) ==
  CASE r.op \in {"collapse", "chan"} -> kk * r.gulp + len > Len(acc)
    [] r.op = "dedisp" -> len > MD(r) /\ kk * (p.gulp - MD(r)) + (len - MD(r)) > Len(acc)
    [] OTHER -> FALSE

Step ==
  /\ pc = "stream" /\ k < NBlocks(PlanOf(run))
  /\ LET p == PlanOf(run)
         a == BlockStart(p, k)
         len == BlockLen(p, k)
     IN /\ acc' = Consume(run, p, k, a, len, Block(V, run.C, a, len))
        /\ oob' = (oob \/ WritesOutside(run, p, k, len))
  /\ k' = k + 1 /\ UNCHANGED <<run, pc>>

Finish == /\ pc = "stream" /\ k = NBlocks(PlanOf(run))
          /\ pc' = "done" /\ UNCHANGED <<run, k, acc, oob>>

Next == Begin \/ Step \/ Finish
Spec == Init /\ [][Next]_vars

(* ------------------------------------ properties ------------------------------------- *)
Def(r) ==
  CASE r.op = "collapse" -> DefCollapse(V, r.C, r.start, r.nsamps)
    [] r.op = "chan"     -> DefChan(V, r.C, r.start, r.nsamps, r.ch)
    [] r.op = "dedisp"   -> DefDedisp(V, r.C, r.start, r.nsamps, r.del)
    [] r.op = "bandpass" -> DefBandSum(V, r.C, r.start, r.nsamps)
    [] r.op = "stats"    -> DefStats(V, r.C, r.start, r.nsamps)

ResultIsDef == pc = "done" => acc = Def(run)
NoOutOfBounds == ~oob
NeverRejected == pc # "rejected"      \* the plans these methods issue have skip <= gulp/2
(* prefix: cells that no later block will touch are already final *)
FinalCells(r, kk) ==
  IF r.op \in {"bandpass", "stats"} THEN 0
  ELSE IF kk = 0 THEN 0
  ELSE LET p == PlanOf(r) IN Min(Len(acc), BlockStart(p, kk - 1) + BlockLen(p, kk - 1) - MD(r) - r.start)
PrefixIsDef == pc = "stream" =>
                 \A j \in 1..FinalCells(run, k) : acc[j] = Def(run)[j]
(* witness: a dedispersion with >= 3 blocks and gulp < 2*maxdelay is reachable (must be violated) *)
WitnessSmallGulpDedisp == ~(pc = "done" /\ run.op = "dedisp" /\ k >= 3 /\ run.gulp < 2 * MD(run) /\ MD(run) >= 1)
=============================================================================
