SPECIFICATION Spec
CONSTANTS
  MaxS = 3
  MaxBlk = 4
  Variant = "fixed"
INVARIANT PositionIndependent
