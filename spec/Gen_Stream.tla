----------------------------- MODULE Gen_Stream -----------------------------
(* Specification -> code direction for C02: TLC generates behaviours of the ABSTRACT stream        *)
(* (one byte array + cursor) - exhaustively to depth Depth on tiny streams, or by -simulate on      *)
(* larger ones - carrying a history variable; every behaviour of full depth is printed as one JSON   *)
(* line and replayed by the harness into a real FileReader over real files, comparing the returned   *)
(* bytes, outcome and reported position after EVERY step.                                            *)
EXTENDS Stream, Json, TLC

CONSTANTS Lens, Depth          \* Lens: per-file byte lengths, e.g. <<2, 0, 3>>
VARIABLES p, hist
vars == <<p, hist>>

RECURSIVE Fill(_, _)
Fill(lens, base) == IF lens = <<>> THEN <<>> ELSE << [j \in 1..Head(lens) |-> (base + j - 1) % 251] >> \o Fill(Tail(lens), base + Head(lens))
Files == Fill(Lens, 0)
D == DataOf(Files)
T == Len(D)

Init == p = 0 /\ hist = <<>>
Seek(target, whence) ==
  LET a == ASeek(D, p, IF whence = 0 THEN target ELSE p + target) IN
  /\ p' = a.p
  /\ hist' = Append(hist, [op |-> "seek", arg |-> target, whence |-> whence, outcome |-> a.outcome, pos |-> a.p, out |-> <<>>])
CRead(n) ==
  LET a == ACRead(D, p, n, 8) IN
  /\ a.outcome = "ok"                          \* raising reads leave the position unconstrained: not generated
  /\ p' = a.p
  /\ hist' = Append(hist, [op |-> "cread", arg |-> n, whence |-> 0, outcome |-> "ok", pos |-> a.p, out |-> a.out])
CReadInto(n) ==
  LET a == ACReadInto(D, p, n) IN
  /\ p' = a.p
  /\ hist' = Append(hist, [op |-> "creadinto", arg |-> n, whence |-> 0, outcome |-> "ok", pos |-> a.p, out |-> a.out])
Next == /\ Len(hist) < Depth
        /\ \/ \E t \in -1..(T + 1) : Seek(t, 0)
           \/ \E o \in {-T, -2, -1, 1, 2, T} : Seek(o, 1)
           \/ \E n \in 0..T : CRead(n)
           \/ \E n \in 1..(T + 1) : CReadInto(n)
Spec == Init /\ [][Next]_vars
Emit == Len(hist) = Depth => PrintT(ToJson([lens |-> Lens, hist |-> hist]))
=============================================================================
