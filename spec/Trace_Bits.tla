----------------------------- MODULE Trace_Bits -----------------------------
(* Validates recorded calls of bits.unpack / bits.pack / the kernels against Bits. *)
EXTENDS Bits, TraceKit

VARIABLES tid, l
tvars == <<tid, l>>

Ev == Traces[tid].ev

EvOK(e) ==
  LET oc == CallOutcome(e.api, e.dtypeOk, e.nbits, e.orderHead, e.insize, e.outsize) IN
  /\ e.outcome = oc
  /\ e.intact                \* results are values: arrays returned by earlier calls, and this call's input, are left alone
  /\ oc = "ok" =>
       /\ e.api = "unpack" => e.out = Unpack(e.inp, e.nbits, OrderOf(e.orderHead))
       /\ e.api = "pack"   => e.out = Pack(e.inp, e.nbits, OrderOf(e.orderHead))

TInit == tid \in 1..NT /\ l = 1 /\ MarkInit(tid)
TNext == /\ l <= Len(Ev)
         /\ Judge(tid, l, EvOK(Ev[l]))
         /\ l' = l + 1
         /\ UNCHANGED tid
         /\ Mark(tid, l + 1)
TSpec == TInit /\ [][TNext]_tvars
=============================================================================
