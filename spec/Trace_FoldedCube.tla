-------------------------- MODULE Trace_FoldedCube --------------------------
(* Code -> spec binding for C17.  A trace is a history of update_dm / update_period calls on a  *)
(* real FoldedData whose every profile is a distinct ramp, so that the rotation applied to each  *)
(* profile can be read back from the data (-1 if the profile is not a rotation of the original).  *)
(* The header carries the DM shift table measured ONCE on fresh cubes, sdm[d][j] - which must itself be the shift the      *)
(* dispersion law implies (LawShiftSet, exact rationals supplied by the harness) - and the period drift as an exact rational.  TLC accepts a step only if afterwards       *)
(* every profile's rotation is the one implied by the CURRENT targets, whatever the history.       *)
EXTENDS Util, TraceKit

VARIABLES tid, l, dm, period
tvars == <<tid, l, dm, period>>
H  == Traces[tid].hdr
Ev == Traces[tid].ev

(* The drift a period target implies, from the documented relation (not from the code):
     dbins = (P_new/P_fold - 1) * tobs * nbins / P_fold        (supplied exactly as H.dbn[q] / H.dbd)
     sub-integration i (0-based) drifts by round(i * dbins / nints) bins.
   At an exact half the two neighbours are both admitted. *)
DriftSet(q, i) ==
  LET num == (i - 1) * H.dbn[q]
      den == H.dbd * H.nints
      k   == (2 * num + den) \div (2 * den)                      \* floor(x + 1/2)
  IN IF (2 * num + den) % (2 * den) = 0 THEN {k, k - 1} ELSE {k}
Mod(x) == x % H.nbins
(* The shift a DM target implies for sub-band j, from the dispersion law (the exact value x is supplied in fixed point,
   H.lawq = floor(x * lq), with H.lawband = the float32 evaluation band of C09 in the same units): the nearest bin, or either
   neighbour when x lies within the band of a half-integer *)
LawShiftSet(d, j) ==
  LET xq == H.lawq[d][j]
      k0 == (2 * xq + H.lq) \div (2 * H.lq)
  IN { k \in {k0 - 1, k0, k0 + 1} : 2 * Abs(k * H.lq - xq) <= H.lq + 2 * H.lawband[d][j] }
DmTableIsTheLaw(d) == \A j \in 1..H.nbands : \E k \in LawShiftSet(d, j) : H.sdm[d][j] = Mod(k)
(* rotation of profile (i, j) implied by the targets: the DM part from the table measured on a fresh cube
   (the dispersion law itself is C09), the period part from DriftSet *)
ImpliedOK(rot, d, q) ==
  \A i \in 1..H.nints : \A j \in 1..H.nbands :
     \E dr \in DriftSet(q, i) : rot[i][j] = Mod(H.sdm[d][j] + dr)

Step(e) ==
  /\ e.outcome = "ok"
  /\ dm' = (IF e.op = "dm" THEN e.target ELSE dm)
  /\ period' = (IF e.op = "period" THEN e.target ELSE period)
  /\ Len(e.rot) = H.nints /\ \A i \in 1..H.nints : Len(e.rot[i]) = H.nbands
  /\ ImpliedOK(e.rot, dm', period')                \* history-free, rotation only
  /\ DmTableIsTheLaw(dm')                          \* ... by the shift the dispersion law implies for the installed DM
  /\ e.rep_dm = dm' /\ e.rep_period = period'      \* the reported DM and period describe the data

TInit == tid \in 1..NT /\ l = 1 /\ dm = 1 /\ period = 1 /\ MarkInit(tid)
TNext == /\ l <= Len(Ev)
         /\ Step(Ev[l])
         /\ l' = l + 1 /\ UNCHANGED tid /\ Mark(tid, l + 1)
TSpec == TInit /\ [][TNext]_tvars
=============================================================================
