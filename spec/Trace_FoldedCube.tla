-------------------------- MODULE Trace_FoldedCube --------------------------
(* Code -> spec binding for C17.  A trace is a history of update_dm / update_period calls on a  *)
(* real FoldedData whose every profile is a distinct ramp, so that the rotation applied to each  *)
(* profile can be read back from the data (-1 if the profile is not a rotation of the original).  *)
(* The header carries the shift tables measured ONCE on fresh cubes (the property's own oracle:   *)
(* "a fresh cube updated once"): sdm[d][j], sp[p][i].  TLC accepts a step only if afterwards       *)
(* every profile's rotation is the one implied by the CURRENT targets, whatever the history.       *)
EXTENDS Util, TraceKit

VARIABLES tid, l, dm, period
tvars == <<tid, l, dm, period>>
H  == Traces[tid].hdr
Ev == Traces[tid].ev

Implied(d, q) == [i \in 1..H.nints |-> [j \in 1..H.nbands |-> (H.sdm[d][j] + H.sp[q][i]) % H.nbins]]

Step(e) ==
  /\ e.outcome = "ok"
  /\ dm' = (IF e.op = "dm" THEN e.target ELSE dm)
  /\ period' = (IF e.op = "period" THEN e.target ELSE period)
  /\ e.rot = Implied(dm', period')                 \* history-free, rotation only
  /\ e.rep_dm = dm' /\ e.rep_period = period'      \* the reported DM and period describe the data

TInit == tid \in 1..NT /\ l = 1 /\ dm = 1 /\ period = 1 /\ MarkInit(tid)
TNext == /\ l <= Len(Ev)
         /\ Step(Ev[l])
         /\ l' = l + 1 /\ UNCHANGED tid /\ Mark(tid, l + 1)
TSpec == TInit /\ [][TNext]_tvars
=============================================================================
