SPECIFICATION Spec
CONSTANTS
  MaxN = 6
  Variant = "good"
  HLen = 2
  Wd = 2
INVARIANT HeaderFirst
INVARIANT PrefixOfFinal
INVARIANT CompleteOnReturn
INVARIANT RecoverK
PROPERTY AppendOnly
