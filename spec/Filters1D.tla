----------------------------- MODULE Filters1D -----------------------------
(* Time-domain filters and decimators (C14): definitions on integer sequences, results as     *)
(* exact rationals <<num, den>> or, where a median of an even count occurs, doubled integers.  *)
EXTENDS Util

(* symmetric (edge-repeating) reflection of ANY integer index into 0..n-1:  ... 1 0 | 0 1 .. n-1 | n-1 n-2 ... *)
Reflect(j, n) == LET m == j % (2 * n) IN IF m < n THEN m ELSE 2 * n - 1 - m
(* the window of width w centred on sample i (0-based): w \div 2 samples before the centre *)
Window(x, i, w) == [k \in 1..w |-> x[Reflect(i - (w \div 2) + (k - 1), Len(x)) + 1]]
RunSum(x, w)  == [i \in 1..Len(x) |-> SumSeq(Window(x, i - 1, w))]                 \* running mean = RunSum / w
Median2(s) == LET t == SortSeq(s) n == Len(s) IN                                   \* 2 * median
              IF n % 2 = 1 THEN 2 * t[(n + 1) \div 2] ELSE t[n \div 2] + t[(n \div 2) + 1]
RunMed2(x, w) == [i \in 1..Len(x) |-> Median2(Window(x, i - 1, w))]                \* 2 * running median

(* decimation: consecutive FULL groups of f, remainder dropped *)
DecSum1D(x, f)  == [g \in 1..(Len(x) \div f) |-> SumSeq(SubSeq(x, (g - 1) * f + 1, g * f))]
DecMed2_1D(x, f) == [g \in 1..(Len(x) \div f) |-> Median2(SubSeq(x, (g - 1) * f + 1, g * f))]
(* 2-D: A is a sequence of d1 rows of d2 values; tiles of f1 rows x f2 columns *)
Tile(A, f1, f2, i, j) == [k \in 1..(f1 * f2) |-> A[(i - 1) * f1 + ((k - 1) \div f2) + 1][(j - 1) * f2 + ((k - 1) % f2) + 1]]
DecSum2D(A, f1, f2)  == [i \in 1..(Len(A) \div f1) |-> [j \in 1..(Len(A[1]) \div f2) |-> SumSeq(Tile(A, f1, f2, i, j))]]
DecMed2_2D(A, f1, f2) == [i \in 1..(Len(A) \div f1) |-> [j \in 1..(Len(A[1]) \div f2) |-> Median2(Tile(A, f1, f2, i, j))]]
Flatten(A) == [k \in 1..(Len(A) * Len(A[1])) |-> A[((k - 1) \div Len(A[1])) + 1][((k - 1) % Len(A[1])) + 1]]
Unflatten(v, d1, d2) == [i \in 1..d1 |-> [j \in 1..d2 |-> v[(i - 1) * d2 + j]]]

(* least-squares line through (i, x[i+1]), i = 0..n-1: residual_i = DetNum(x, i) / DetDen(x) *)
Sx(x)  == SumSeq(x)
Six(x) == SumSeq([i \in 1..Len(x) |-> (i - 1) * x[i]])
Si(n)  == (n * (n - 1)) \div 2
Sii(n) == ((n - 1) * n * (2 * n - 1)) \div 6
DetB(n) == n * Sii(n) - Si(n) * Si(n)
DetA(x) == Len(x) * Six(x) - Si(Len(x)) * Sx(x)
DetDen(x) == Len(x) * DetB(Len(x))
DetNum(x, i) == x[i + 1] * DetDen(x) - (Sx(x) * DetB(Len(x)) - DetA(x) * Si(Len(x))) - DetA(x) * i * Len(x)
=============================================================================
