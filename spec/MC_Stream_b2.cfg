SPECIFICATION Spec
CONSTANTS
  MaxFiles = 3
  MaxLen = 2
  NBits = 2
INVARIANT PosAgree
INVARIANT ResultAgree
INVARIANT InBounds
INVARIANT NoLeak
