SPECIFICATION Spec
CONSTANTS
  MaxN = 4
  NBits = 8
  C = 2
  HLen = 3
  Variant = "fullbuf"
INVARIANT NeverShort
