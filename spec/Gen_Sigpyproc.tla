---------------------------- MODULE Gen_Sigpyproc ----------------------------
(* Specification -> code direction for the top-level composition: TLC generates complete behaviours   *)
(* of Sigpyproc (an input set, one streaming call, every step, ending in Return or in a Crash at any    *)
(* step) carrying a history variable; each finished behaviour is printed as one JSON line.  The harness  *)
(* rebuilds the input files byte for byte, runs the REAL transform, interrupts it at the crash point the *)
(* behaviour names, and compares the bytes on disk after every step with the model's `out`.             *)
EXTENDS Sigpyproc, Json, TLC

VARIABLE hist
gvars == <<fs, run, pc, k, ifile, off, out, hist>>

GInit == Init /\ hist = <<>>
GNext == Next /\ hist' = hist \o << [pc |-> pc', k |-> k', outlen |-> Len(out'), ifile |-> ifile', off |-> off'] >>
GSpec == GInit /\ [][GNext]_gvars

Emit == pc \in {"returned", "crashed"} =>
          PrintT(ToJson([fs |-> fs, op |-> run.op, gulp |-> run.gulp, start |-> run.start, nsamps |-> run.nsamps,
                         mask |-> [c \in 1..C |-> IF run.mask[c] THEN 1 ELSE 0],
                         nbits |-> NBits, nchans |-> C, hlen |-> HLen, pc |-> pc, out |-> out, final |-> FinalFile, hist |-> hist]))
=============================================================================
