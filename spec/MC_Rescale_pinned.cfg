SPECIFICATION Spec
CONSTANTS
  C = 2
  Every = 4
  Constant = FALSE
  MaxBlk = 3
  Variant = "pinned"
INVARIANT CounterIsSamples
INVARIANT CommittedIsPrefix
INVARIANT VarianceNonNegative
