------------------------------- MODULE Util -------------------------------
(* Small helpers shared by every module of the sigpyproc3 specification.      *)
(* Sequences are 1-based; the implementation's 0-based indices are written     *)
(* explicitly as (i - 1) where they occur so that formulas can be compared     *)
(* with the code side by side.                                                 *)
EXTENDS Naturals, Integers, Sequences, FiniteSets

Min(a, b) == IF a <= b THEN a ELSE b
Max(a, b) == IF a >= b THEN a ELSE b
Abs(a)    == IF a >= 0 THEN a ELSE -a
Sign(a)   == IF a > 0 THEN 1 ELSE IF a < 0 THEN -1 ELSE 0

(* floor division / modulo that are correct for negative numerators (TLC's \div
   already floors, stated here so the intent is explicit) *)
FloorDiv(a, b) == a \div b
CeilDiv(a, b)  == -((-a) \div b)

RECURSIVE SumSeq(_)
SumSeq(s) == IF s = <<>> THEN 0 ELSE Head(s) + SumSeq(Tail(s))

RECURSIVE MaxSeq(_)
MaxSeq(s) == IF Len(s) = 1 THEN s[1] ELSE Max(Head(s), MaxSeq(Tail(s)))
RECURSIVE MinSeq(_)
MinSeq(s) == IF Len(s) = 1 THEN s[1] ELSE Min(Head(s), MinSeq(Tail(s)))

(* s[a..b) with 0-based half-open bounds, as Python's s[a:b] for 0 <= a <= b <= Len(s) *)
Slice(s, a, b) == [i \in 1..(b - a) |-> s[a + i]]

Concat(ss) == LET RECURSIVE C(_)
                  C(k) == IF k > Len(ss) THEN <<>> ELSE ss[k] \o C(k + 1)
              IN C(1)

Reverse(s) == [i \in 1..Len(s) |-> s[Len(s) + 1 - i]]

IsPrefixOf(a, b) == Len(a) <= Len(b) /\ \A i \in 1..Len(a) : a[i] = b[i]

Range(s) == {s[i] : i \in 1..Len(s)}

(* cumulative sums: Cum(<<3,0,2>>) = <<3,3,5>> *)
Cum(s) == [i \in 1..Len(s) |-> SumSeq(SubSeq(s, 1, i))]

Pow2(n) == 2 ^ n

RECURSIVE Gcd(_, _)
Gcd(a, b) == IF b = 0 THEN Abs(a) ELSE Gcd(b, a % b)

(* Sort a sequence of integers ascending (insertion sort; tiny inputs only) *)
RECURSIVE SortSeq(_)
SortSeq(s) ==
  IF Len(s) <= 1 THEN s
  ELSE LET r == SortSeq(Tail(s))
           x == Head(s)
           k == Cardinality({i \in 1..Len(r) : r[i] < x})
       IN SubSeq(r, 1, k) \o <<x>> \o SubSeq(r, k + 1, Len(r))
=============================================================================
