-------------------------- MODULE MC_PulseExtractor --------------------------
EXTENDS PulseExtractor, TLC
CONSTANTS MaxN
VARIABLES N, toa, md, w, mn
vars == <<N, toa, md, w, mn>>
Init == N \in 1..MaxN /\ toa \in 0..(MaxN - 1) /\ toa < N /\ md \in 0..6 /\ w \in 1..5 /\ mn \in {1, 4, 16}
Next == UNCHANGED vars
Spec == Init /\ [][Next]_vars
ns == NSamps(md, w, mn)
ReadInFile   == NStartFile(toa, md, w, mn) >= 0 /\ NSampsFile(N, toa, md, w, mn) >= 1
                /\ NStartFile(toa, md, w, mn) + NSampsFile(N, toa, md, w, mn) <= N
FitsInBlock  == PadOffset(toa, md, w, mn) + NSampsFile(N, toa, md, w, mn) <= ns
WholeDecim   == ns % TDec(w) = 0
PulseCentred == ToaInBlock(toa, md, w, mn) = ns \div 2
CoversSweep  == ToaInBlock(toa, md, w, mn) - DispDelay(md, w) >= 0 /\ ToaInBlock(toa, md, w, mn) + DispDelay(md, w) < ns
(* the read part lands exactly where Source says: file sample NStartFile + j at output index PadOffset + j *)
Placement == \A j \in 0..(NSampsFile(N, toa, md, w, mn) - 1) :
               Source(N, toa, md, w, mn, PadOffset(toa, md, w, mn) + j) = NStartFile(toa, md, w, mn) + j
EveryFileSampleInWindowIsRead ==
  \A k \in 0..(ns - 1) : Source(N, toa, md, w, mn, k) # -1 =>
      k >= PadOffset(toa, md, w, mn) /\ k < PadOffset(toa, md, w, mn) + NSampsFile(N, toa, md, w, mn)
=============================================================================
