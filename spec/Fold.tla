-------------------------------- MODULE Fold --------------------------------
(* Folding (kernels.fold, Filterbank.fold, TimeSeries.fold) - C11.                          *)
(* A fold geometry g = [N, C, nbins, nints, nbands, pn, pd, kn, kd, del]:                    *)
(*   period / tsamp = pn/pd samples;  acceleration a = 2c*kappa with kappa*tsamp = kn/kd,    *)
(*   so that the documented phase formula                                                     *)
(*        phase(t) = nbins * tj * (1 + a*(tj - tobs)/(2c)) / P + 1/2 ,  tj = t*tsamp          *)
(*   is the exact rational  (2*nbins*t*pd*(kd + kn*(t - N)) + pn*kd) / (2*pn*kd).             *)
(* Geometries are chosen with pn*kd odd: the numerator is then odd and the phase is never     *)
(* exactly on a bin boundary, so the bin is unambiguous (no tie band is needed).               *)
(* Sample (t, c), t < N - maxdelay, of the DEDISPERSED data is x[t + del[c]][c].               *)
EXTENDS PlanArith

MDg(g) == MaxSeq(g.del)
PhaseNum(g, t) == 2 * g.nbins * t * g.pd * (g.kd + g.kn * (t - g.N)) + g.pn * g.kd
PhaseDen(g)    == 2 * g.pn * g.kd
(* |int(phase)| mod nbins, int() truncating toward zero (the phase is negative while the bracket
   1 + kappa*(tj - tobs) is, i.e. for strongly accelerated folds early in the observation) *)
TruncDiv(a, b) == IF a >= 0 THEN a \div b ELSE -((-a) \div b)
PhaseBin(g, t) == Abs(TruncDiv(PhaseNum(g, t), PhaseDen(g))) % g.nbins
SubInt(g, t)   == (t * g.nints) \div g.N
NBands(g)      == Min(g.nbands, g.C)
SubBand(g, c)  == (c * NBands(g)) \div g.C
(* flat cell index, as the cube is laid out: [subint][band][bin] *)
Cell(g, t, c)  == (SubInt(g, t) * NBands(g) + SubBand(g, c)) * g.nbins + PhaseBin(g, t) + 1
NCells(g)      == g.nints * NBands(g) * g.nbins
NFolded(g)     == g.N - MDg(g)

(* whole-array definition: per cell the sum and the hit count over all folded samples *)
CellSum(g, V, k) ==
  SumSeq([i \in 1..(NFolded(g) * g.C) |->
            LET t == (i - 1) \div g.C  c == (i - 1) % g.C IN
            IF Cell(g, t, c) = k THEN V[(t + g.del[c + 1]) * g.C + c + 1] ELSE 0])
CellCount(g, k) ==
  Cardinality({i \in 1..(NFolded(g) * g.C) : Cell(g, (i - 1) \div g.C, (i - 1) % g.C) = k})
DefFold(g, V) == [k \in 1..NCells(g) |-> <<CellSum(g, V, k), CellCount(g, k)>>]

(* the same definition as ONE pass over the samples (linear; used on recorded executions, where N is in
   the hundreds); MC_Fold checks that it equals DefFold *)
RECURSIVE FoldPass(_, _, _, _)
FoldPass(g, V, i, acc) ==
  IF i > NFolded(g) * g.C THEN acc
  ELSE LET t == (i - 1) \div g.C
           c == (i - 1) % g.C
           k == Cell(g, t, c) IN
       FoldPass(g, V, i + 1, [acc EXCEPT ![k] = <<@[1] + V[(t + g.del[c + 1]) * g.C + c + 1], @[2] + 1>>])
DefFoldFast(g, V) == FoldPass(g, V, 1, [k \in 1..NCells(g) |-> <<0, 0>>])

(* step-wise: one plan block of len samples starting at sample a of the range, consumed with the
   absolute index `index` the caller passes (ii * (gulp - maxdelay)) *)
FoldBlock(g, V, cells, a, len, index) ==
  [k \in 1..NCells(g) |->
     LET hits == {i \in 1..(Max(len - MDg(g), 0) * g.C) : Cell(g, ((i - 1) \div g.C) + index, (i - 1) % g.C) = k} IN
     << cells[k][1] + SumSeq([i \in 1..(Max(len - MDg(g), 0) * g.C) |->
                                 IF i \in hits THEN V[(a + ((i - 1) \div g.C) + g.del[((i - 1) % g.C) + 1]) * g.C + ((i - 1) % g.C) + 1]
                                 ELSE 0]),
        cells[k][2] + Cardinality(hits) >>]
=============================================================================
