----------------------------- MODULE MC_Writer -----------------------------
(* The writer as C04 states it: after Prep the header declares (nbits, nchans); every      *)
(* CWrite(array of n values held in memory as dtype dt) has exactly two allowed outcomes:  *)
(*   Convert - n*nbits/8 bytes appended, encoding the values at the DECLARED depth;        *)
(*   Refuse  - an error, disk unchanged.                                                    *)
(* There is no third disjunct, which is the clause "never written at a different sample    *)
(* width than the header declares".  Variant "ownwidth" is the pinned commit's behaviour   *)
(* at 8/16/32 bits (array dumped at its own item size) and is refuted.                      *)
EXTENDS Writer

CONSTANTS Variant
VARIABLES nbits, nchans, datalen, written, pc
vars == <<nbits, nchans, datalen, written, pc>>

DTypes == {"u1", "u2", "i8", "f4", "f8"}
ISize(dt) == CASE dt = "u1" -> 1 [] dt = "u2" -> 2 [] dt = "i8" -> 8 [] dt = "f4" -> 4 [] dt = "f8" -> 8

Init == /\ nbits \in {1, 2, 4, 8, 16, 32} /\ nchans \in {1, 2, 4, 8} /\ (nbits * nchans) % 8 = 0
        /\ datalen = 0 /\ written = 0 /\ pc = "open"

Convert(n, dt) == /\ datalen' = datalen + (IF Variant = "ownwidth" /\ nbits >= 8 THEN n * ISize(dt) ELSE (n * nbits) \div 8)
                  /\ written' = written + n
Refuse == UNCHANGED <<datalen, written>>

CWrite(nsamp, dt) ==
  /\ pc = "open" /\ written < 3 * nchans
  /\ (Convert(nsamp * nchans, dt) \/ Refuse)
  /\ UNCHANGED <<nbits, nchans, pc>>

Close == pc = "open" /\ pc' = "closed" /\ UNCHANGED <<nbits, nchans, datalen, written>>
Next == (\E n \in 1..3, dt \in DTypes : CWrite(n, dt)) \/ Close
Spec == Init /\ [][Next]_vars

Width == datalen * 8 = written * nbits
Count == ReopenCount(datalen, nbits, nchans) * nchans = written
=============================================================================
