---------------------------- MODULE MatchedFilter ----------------------------
(* Matched filtering (C13) on integer data z (length n) and integer templates h with a reference *)
(* bin.  The template is zero-padded to the DATA length n, its reference bin aligned to index 0   *)
(* (circularly), made zero-mean and unit-norm over those n bins; the response at bin t is the      *)
(* inner product of the data with that template placed at t (indices mod n).  Exactly:            *)
(*      Resp[t] = Num[t] / sqrt(Den),   Num[t] = n * sum_j z[(t+j) mod n] * hp[j] - (sum h)(sum z) *)
(*                                      Den    = n * (n * sum h^2 - (sum h)^2)                     *)
EXTENDS Util

(* template padded to n with its reference bin at index 0:  hp[(j - ref) mod n] = h[j]   (0-based j) *)
Padded(h, ref, n) == [i \in 1..n |-> LET j == ((i - 1) + ref) % n IN IF j < Len(h) THEN h[j + 1] ELSE 0]
RespNum(z, h, ref, t) ==       \* t 0-based
  LET n == Len(z)  hp == Padded(h, ref, n) IN
  n * SumSeq([i \in 1..n |-> z[((t + i - 1) % n) + 1] * hp[i]]) - SumSeq(h) * SumSeq(z)
RespDen(z, h) == Len(z) * (Len(z) * SumSeq([i \in 1..Len(h) |-> h[i] * h[i]]) - SumSeq(h) * SumSeq(h))

(* the boxcar bank: 1, then w -> int(max(w + 1, f * w)), f = fn/fd, while <= max *)
RECURSIVE BoxWidthsFrom(_, _, _, _)
BoxWidthsFrom(w, mx, fn, fd) ==
  LET nxt == Max(w + 1, (fn * w) \div fd) IN
  IF w >= mx \/ nxt > mx THEN <<w>> ELSE <<w>> \o BoxWidthsFrom(nxt, mx, fn, fd)
BoxWidths(mx, fn, fd) == BoxWidthsFrom(1, mx, fn, fd)
Ones(w) == [i \in 1..w |-> 1]

(* comparing two responses Num1/sqrt(Den1) >= Num2/sqrt(Den2) without square roots *)
Sq(x) == x * x
GeResp(n1, d1, n2, d2) ==
  IF n1 >= 0 /\ n2 < 0 THEN TRUE ELSE IF n1 < 0 /\ n2 >= 0 THEN FALSE
  ELSE IF n1 >= 0 THEN (Sq(n1) \div d1) * d2 + ((Sq(n1) % d1) * d2) \div d1 >= Sq(n2) - 1      \* n1^2 d2 >= n2^2 d1 (floor-safe)
  ELSE (Sq(n1) \div d1) * d2 + ((Sq(n1) % d1) * d2) \div d1 <= Sq(n2) + 1
=============================================================================
