---------------------------- MODULE MC_Metadata ----------------------------
(* Exhaustive check that the natural header formulas satisfy the provenance requirement of  *)
(* C08 for every channelisation in the bound, and that two recorded wrong formulas (the     *)
(* pinned commit's sub-band first-channel label; an un-updated label for extract_chans) do   *)
(* not: these are the negative controls.                                                     *)
EXTENDS Metadata

CONSTANTS MaxC, Bad
VARIABLES op, p, C
vars == <<op, p, C>>

OpsM == {"extract_samps", "invert", "extract_chans", "extract_bands", "downsample", "subband", "read_block"}
Ps == [c0 : 0..(MaxC - 1), ch : 0..(MaxC - 1), k : 0..3, cps : 1..MaxC, ff : 1..MaxC, nsub : 1..MaxC, m : 1..MaxC]
Valid(o, q, c) ==
  /\ (o \notin {"extract_bands", "read_block"} => q.c0 = 0) /\ (o # "extract_chans" => q.ch = 0) /\ q.ch < c
  /\ (o # "extract_bands" => q.k = 0 /\ q.cps = 1) /\ (o = "extract_bands" => q.c0 + (q.k + 1) * q.cps <= c)
  /\ (o # "downsample" => q.ff = 1) /\ (o = "downsample" => c % q.ff = 0)
  /\ (o # "subband" => q.nsub = 1) /\ (o = "subband" => c % q.nsub = 0)
  /\ (o # "read_block" => q.m = 1) /\ (o = "read_block" => q.c0 + q.m <= c)

Init == C \in 1..MaxC /\ op \in OpsM /\ p \in Ps /\ Valid(op, p, C)
Next == UNCHANGED vars
Spec == Init /\ [][Next]_vars

Off2k == IF Bad = "subband_pinned" /\ op = "subband" THEN -1000 - 1000 * (C \div p.nsub)     \* ftop - new_foff/2
         ELSE IF Bad = "chans_stale" /\ op = "extract_chans" THEN 0
         ELSE NatOff2k(op, p, C)
NaturalMeetsRequirement == LabelsOK(op, p, C, Off2k, NatStepk(op, p, C), 2)
=============================================================================
