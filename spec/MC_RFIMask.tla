----------------------------- MODULE MC_RFIMask -----------------------------
(* Every order of applying ranges / method / custom function (repetitions included) over small   *)
(* statistics vectors: the channel mask is always the union of the three component masks          *)
(* accumulated so far and only ever grows.                                                        *)
EXTENDS RFIMask, TLC
CONSTANTS C, MaxSteps
VARIABLES sv, user, stats, custom, chan, steps
vars == <<sv, user, stats, custom, chan, steps>>

Vecs == { [c \in 1..C |-> 5], [c \in 1..C |-> IF c = 2 THEN 90 ELSE 5 + c], [c \in 1..C |-> IF c \in {1, C} THEN 70 ELSE c],
          [c \in 1..C |-> c * c] }
Labels == [c \in 1..C |-> 100 - 2 * (c - 1)]
RangeLists == { <<>>, << <<96, 98>> >>, << <<0, 50>> >>, << <<99, 100>>, <<100, 200>> >>, << <<90, 95>>, <<94, 97>> >> }

Init == /\ sv \in [var : Vecs, skew : Vecs, kurt : Vecs]
        /\ user = {} /\ stats = {} /\ custom = {} /\ chan = {} /\ steps = 0
ApplyRanges == \E L \in RangeLists : /\ user' = UserMask(Labels, L) /\ chan' = chan \cup user'
                                     /\ UNCHANGED <<sv, stats, custom>>
ApplyMethod == \E m \in {"mad", "iqrm"} :
                 \E extra \in SUBSET ((OutMay(m, sv.var, 3, 1) \cup OutMay(m, sv.skew, 3, 1) \cup OutMay(m, sv.kurt, 3, 1))
                                      \ (OutMust(m, sv.var, 3, 1) \cup OutMust(m, sv.skew, 3, 1) \cup OutMust(m, sv.kurt, 3, 1))) :
                   /\ stats' = OutMust(m, sv.var, 3, 1) \cup OutMust(m, sv.skew, 3, 1) \cup OutMust(m, sv.kurt, 3, 1) \cup extra
                   /\ chan' = chan \cup stats' /\ UNCHANGED <<sv, user, custom>>
ApplyFuncn == \E g \in {"none", "first", "dilate", "all"} :
                 /\ custom' = Custom(g, chan, C) /\ chan' = chan \cup custom' /\ UNCHANGED <<sv, user, stats>>
Next == steps < MaxSteps /\ steps' = steps + 1 /\ (ApplyRanges \/ ApplyMethod \/ ApplyFuncn)
Spec == Init /\ [][Next]_vars

Monotone == [][chan \subseteq chan']_vars
Covers   == user \cup stats \cup custom \subseteq chan
MustSubMay == \A m \in {"mad", "iqrm"} : OutMust(m, sv.var, 3, 1) \subseteq OutMay(m, sv.var, 3, 1)
PlantedOutlierFound == (sv.var = [c \in 1..C |-> IF c = 2 THEN 90 ELSE 5 + c]) => 2 \in OutMust("mad", sv.var, 3, 1)
ConstantNoOutlier == OutMay("mad", [c \in 1..C |-> 5], 3, 1) = {} /\ OutMay("iqrm", [c \in 1..C |-> 5], 3, 1) = {}
=============================================================================
