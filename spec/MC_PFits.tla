------------------------------- MODULE MC_PFits -------------------------------
(* Every in-range (start, n) over every S x NSBLK in the bound: the rows/offset arithmetic of       *)
(* read_block delivers exactly samples [start, start+n) of the whole file, aligned or not; the       *)
(* pinned commit's row count is refuted.                                                             *)
EXTENDS PFits, TLC
CONSTANTS MaxS, MaxBlk, Variant
VARIABLES S, nsblk, start, n
vars == <<S, nsblk, start, n>>
Init == S \in 1..MaxS /\ nsblk \in 1..MaxBlk /\ start \in 0..(MaxS * MaxBlk) /\ n \in 1..(MaxS * MaxBlk) /\ start + n <= S * nsblk
Next == UNCHANGED vars
Spec == Init /\ [][Next]_vars
PositionIndependent == BlockIds(nsblk, S, start, n, Variant) = Ids(start, n)
=============================================================================
