--------------------------- MODULE Trace_Metadata ---------------------------
(* Code -> spec binding for C08: the header of every derived product (output file parsed     *)
(* independently from disk, or returned container) projected to dimensionless integers by    *)
(* the harness and judged by TLC against Metadata: channel labels by provenance, spacing,     *)
(* nchans, nsamples = data shape, tsamp factor, tstart advance (5 us), recorded DM; and       *)
(* read_block by first-channel frequency must return the rows whose labels match.             *)
EXTENDS Metadata, Stream, TraceKit

VARIABLES tid, l
tvars == <<tid, l>>
Ev == Traces[tid].ev
H  == Traces[tid].hdr

(* a request for channels that do not all exist (first channel c0, m channels, c0 + m > C, or a first-channel frequency that is
   no channel's label) cannot "return the channels whose labels match": it is refused *)
RefuseOK(e) == e.outcome = "ValueError"

EvOK(e) == IF e.op = "read_block_refuse" THEN RefuseOK(e) ELSE
  LET o == e.obs  C == e.C IN
  /\ e.outcome = "ok"
  /\ o.nchans = (IF e.op \in {"collapse", "chan", "dedisp", "get_tim"} THEN 1 ELSE OutChans(e.op, e.p, C))
  /\ (e.container => o.nsamples_hdr = o.nsamples_data)
  /\ o.nsamples_data = e.ns_expected
  /\ Abs(o.tsk - 1000 * e.tf) <= 1
  /\ Abs(o.dt_us - e.start * e.tf0 * H.tsamp_us) <= 5
  /\ (e.dm_applied >= 0 => Abs(o.dm_milli - e.dm_applied) <= 1)
  /\ CASE e.op \in {"collapse", "dedisp", "get_tim"} ->          \* all channels combined into one
            o.off2k >= -2 /\ o.off2k <= 2000 * (C - 1) + 2
       [] e.op = "chan" -> Abs(o.off2k - 2000 * e.p.ch) <= 2
       [] OTHER -> LabelsOK(e.op, e.p, C, o.off2k, o.stepk, 2)
  /\ (e.op = "read_block" =>      \* requesting by first-channel frequency returns the matching rows
        e.rows = [c \in 1..e.p.m |-> [t \in 1..e.ns_expected |-> H.vals[(e.start + t - 1) * C + e.p.c0 + c]]])

TInit == tid \in 1..NT /\ l = 1 /\ MarkInit(tid)
TNext == /\ l <= Len(Ev)
         /\ Judge(tid, l, EvOK(Ev[l]))
         /\ l' = l + 1 /\ UNCHANGED tid /\ Mark(tid, l + 1)
TSpec == TInit /\ [][TNext]_tvars
=============================================================================
