SPECIFICATION Spec
CONSTANTS
  MaxLen = 4
  MaxVal = 1
  MaxM = 1
  Mode = "conv"
INVARIANT Commutes
INVARIANT CorrIsConvWithReverse
INVARIANT ConvLength
INVARIANT ConvSum
