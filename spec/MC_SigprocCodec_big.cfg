SPECIFICATION Spec
CONSTANTS
  MaxItems = 3
INVARIANT ParseEnc
INVARIANT EncParse
INVARIANT EditSound
INVARIANT EditLength
