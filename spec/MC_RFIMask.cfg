SPECIFICATION Spec
CONSTANTS
  C = 6
  MaxSteps = 4
INVARIANT Covers
INVARIANT MustSubMay
INVARIANT PlantedOutlierFound
INVARIANT ConstantNoOutlier
PROPERTY Monotone
