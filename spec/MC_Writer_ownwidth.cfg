SPECIFICATION Spec
CONSTANTS
  Variant = "ownwidth"
INVARIANT Width
INVARIANT Count
