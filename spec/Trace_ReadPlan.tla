--------------------------- MODULE Trace_ReadPlan ---------------------------
(* Code -> spec binding for C01 (and the plan part of C18): one recorded execution of    *)
(* read_plan is accepted only if it is a behaviour of the PROPERTY-LEVEL layer of        *)
(* ReadPlan, with every yielded block recomputed from the model stream (Stream, Bits).   *)
EXTENDS ReadPlan, Stream, TraceKit

VARIABLES tid, l
tvars == <<tid, l, cfg, phase, covered, nyield, blk, out, kb, kpos>>

H  == Traces[tid].hdr
Ev == Traces[tid].ev
D  == DataOf(H.files)
NB == H.nbits
C  == H.nchans
V  == IF NB = 32 \/ H.files = <<>> THEN H.vals ELSE Values(D, NB)

HdrOK == \/ H.files = <<>>                       \* value-level stream (PSRFITS) or skeleton trace: no byte model
         \/ /\ H.N = NSamples(D, C, NB)
            /\ (NB = 32 \/ H.vals = Values(D, NB))

TInit == /\ tid \in 1..NT /\ l = 1 /\ MarkInit(tid)
         /\ cfg = [N |-> Traces[tid].hdr.N, gulp |-> Traces[tid].hdr.gulp, start |-> Traces[tid].hdr.start,
                   nsamps |-> Traces[tid].hdr.nsamps, skip |-> Traces[tid].hdr.skip]
         /\ phase = "plan" /\ covered = 0 /\ nyield = 0 /\ blk = [a |-> 0, n |-> 0] /\ out = <<>>
         /\ kb = <<>> /\ kpos = 0

TReject == PReject

(* a yield event: accepting the plan is implicit in the first one *)
TYield(e) ==
  /\ e.n >= 0
  /\ \/ phase = "plan" /\ ~MustReject(cfg) /\ e.n >= 1 /\ e.n <= G(cfg)
        /\ cfg.start + e.n <= End(cfg) /\ ((cfg.start + e.n = End(cfg)) \/ e.n >= cfg.skip)
        /\ phase' = "read" /\ blk' = [a |-> cfg.start, n |-> e.n] /\ covered' = cfg.start + e.n
        /\ out' = Ids(cfg.start, e.n) /\ nyield' = 1 /\ UNCHANGED cfg
     \/ PYield(e.n)
     \/ (e.n = cfg.skip /\ PYieldTail)
  /\ e.alen = e.n * C
  /\ (IF H.novals THEN TRUE ELSE e.vals = Slice(V, blk'.a * C, (blk'.a + e.n) * C))      \* novals: skeleton traces of the repository's own tests

TDone == PDone

TInitOK == IF HdrOK THEN TRUE ELSE Assert(FALSE, <<"trace header inconsistent with the model stream", tid>>)

TNext == /\ l <= Len(Ev)
         /\ LET e == Ev[l] IN
              \/ e.e = "reject" /\ TReject
              \/ e.e = "yield" /\ TYield(e)
              \/ e.e = "done" /\ TDone
         /\ l' = l + 1 /\ UNCHANGED <<tid, kb, kpos>> /\ Mark(tid, l + 1)
         /\ (IF l > 1 THEN TRUE ELSE TInitOK)
TSpec == TInit /\ [][TNext]_tvars

(* every invariant of the module is also evaluated on every state of every recorded execution *)
=============================================================================
