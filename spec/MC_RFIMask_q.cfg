SPECIFICATION Spec
CONSTANTS
  C = 5
  MaxSteps = 3
INVARIANT Covers
INVARIANT MustSubMay
INVARIANT PlantedOutlierFound
INVARIANT ConstantNoOutlier
PROPERTY Monotone
