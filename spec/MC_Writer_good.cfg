SPECIFICATION Spec
CONSTANTS
  Variant = "good"
INVARIANT Width
INVARIANT Count
