SPECIFICATION Spec
CONSTANTS
  MaxFiles = 3
  MaxLen = 2
  NBits = 8
INVARIANT NoShortRead
