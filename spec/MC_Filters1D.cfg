SPECIFICATION Spec
CONSTANTS
  MaxLen = 5
  MaxVal = 2
INVARIANT SameLength
INVARIANT WidthOne
INVARIANT DecOne
INVARIANT DecAll
INVARIANT DropsRemainder
INVARIANT FlatIs2D
INVARIANT NormalEquations
INVARIANT ReflectInRange
INVARIANT ReflectEdge
