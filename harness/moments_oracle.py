"""A line-by-line transcription of spec/Moments.tla (OfSeq, Merge, A, MeanR, VarR, ScaleR, Near) into Python integers.
TLC's integers are 32 bits wide, so the power sums of streams longer than a few thousand samples cannot be evaluated by TLC; this
transcription evaluates the SAME formulas in unbounded integers for those streams only.  It is tied to the specification rather
than trusted: C10 evaluates it on every small trace as well and requires its verdict to coincide with TLC's on each of them."""
from __future__ import annotations


def of_seq(xs):
    return {"n": len(xs), "s1": sum(xs), "s2": sum(x * x for x in xs), "mn": min(xs), "mx": max(xs)}


def merge(a, b):
    if a["n"] == 0:
        return b
    if b["n"] == 0:
        return a
    return {"n": a["n"] + b["n"], "s1": a["s1"] + b["s1"], "s2": a["s2"] + b["s2"], "mn": min(a["mn"], b["mn"]), "mx": max(a["mx"], b["mx"])}


def A(a):
    return a["n"] * a["s2"] - a["s1"] * a["s1"]


def scale_r(num, den, q):          # ScaleR: floor division, den > 0
    return (num // den) * q + ((num % den) * q) // den


def near(obsq, q, num, den, tolq):
    return abs(obsq - scale_r(num, den, q)) <= tolq + 1


def obs_ok_basic(a, o, q, nsamps, tolmean, tolvar):
    """ObsOK of Trace_Moments restricted to the basic moments (count, extrema, mean, variance, constant => zero variance)."""
    if not o["finite"] or o["count"] != a["n"] or o["mn"] != a["mn"] or o["mx"] != a["mx"]:
        return False
    if not near(o["meanq"], q, a["s1"], a["n"], tolmean):
        return False
    ok_var = near(o["varq"], q, A(a), nsamps * a["n"], tolvar) or (a["n"] != nsamps and near(o["varq"], q, A(a), a["n"] * a["n"], tolvar))
    if not ok_var:
        return False
    return not (A(a) == 0 and o["varq"] != 0)
