"""./check --extras : specification growth BEYOND the twenty listed properties.
Models of further stateful pieces of the library are model-checked and bound to the code in the same way as
the properties, but their outcome is informational: observations are printed as EXTRA-OBSERVATION lines and
written to evidence/extras.json; the exit code is 0 unless the machinery itself fails (2).  They are not
registered in MANIFEST.json (properties.jsonl is fixed)."""
from __future__ import annotations

import json
import random
import sys
import time

import numpy as np

from . import common, tlc, tracecheck
from .common import EVIDENCE, MachineryFailure


def _fx(x, q):
    x = float(x)
    return int(round(x * q)) if np.isfinite(x) else 2_000_000_000


def rescale(obs: list) -> dict:
    from sigpyproc.io.rescale import Rescale
    out = {"module": "Rescale", "tlc": [], "traces": 0, "rejected": 0}
    out["tlc"].append(tlc.must_pass(tlc.run("Rescale", "MC_Rescale_intended.cfg", workers=4), "Rescale intended").distinct)
    tlc.must_fail(tlc.run("Rescale", "MC_Rescale_pinned.cfg", workers=2), "Rescale pinned counter", "CounterIsSamples")
    rng = random.Random(common.seed())
    groups: dict = {}
    for _ in range(120):
        C, every, const = rng.choice([1, 2, 3, 4]), rng.choice([1, 4, 8, 50]), rng.random() < 0.25
        r = Rescale(C, rescale_samples=every, constant_offset_scale=const)
        ev = []
        for _ in range(rng.randrange(1, 7)):
            k = rng.randrange(1, 7)
            blk = np.array([[rng.randrange(0, 6) for _ in range(C)] for _ in range(k)], dtype=np.float32)
            try:
                y = r.execute(blk.ravel().copy())
                oc = "ok"
            except Exception as exc:  # noqa: BLE001
                y, oc = np.zeros(0), f"raise:{type(exc).__name__}"
            ev.append({"block": [[int(v) for v in row] for row in blk], "isample": int(r.isample), "sum": [int(v) for v in r.sum_ar],
                       "sumsq": [int(v) for v in r.sumsq_ar], "offq": [_fx(v, 256) for v in np.atleast_1d(r.offset)],
                       "scaleq": [_fx(v, 256) for v in np.atleast_1d(r.scale)], "q": 256, "outcome": oc, "out0q": [_fx(v, 256) for v in y[:C]]})
        groups.setdefault((C, every, const), []).append({"hdr": {"C": C}, "ev": ev, "cfg": {"C": C, "every": every, "constant": const,
                                                                                           "blocks": [len(e["block"]) for e in ev]}})
    for (C, every, const), trs in groups.items():
        cfg = (f"SPECIFICATION TSpec\nCONSTANTS\n  C = {C}\n  Every = {every}\n  Constant = {'TRUE' if const else 'FALSE'}\n  MaxBlk = 1\n"
               f"  Variant = \"intended\"\nPOSTCONDITION Report\nCHECK_DEADLOCK FALSE\n")
        rej = tracecheck.validate("Trace_Rescale", trs, cfg_text=cfg)
        out["traces"] += len(trs)
        out["rejected"] += len(rej)
        for tr, pos in rej[:2]:
            e = tr["ev"][pos - 1]
            obs.append({"module": "Rescale", "site": "Rescale.execute", "cfg": tr["cfg"], "event": pos,
                        "observed": {k: e[k] for k in ("isample", "sum", "offq", "scaleq")},
                        "what": "not a step of the intended machine (counter / committed statistics)"})
    return out


def main() -> int:
    t0 = time.time()
    obs: list = []
    try:
        parts = [rescale(obs)]
        from . import extras_pulse
        parts.append(extras_pulse.run(obs))
        from . import extras_apps
        parts.append(extras_apps.run(obs))
    except MachineryFailure as exc:
        print(f"MACHINERY-FAILURE extras: {exc}", file=sys.stderr)
        return 2
    for o in obs:
        print("EXTRA-OBSERVATION " + json.dumps(o, default=str)[:600])
    EVIDENCE.mkdir(exist_ok=True)
    (EVIDENCE / "extras.json").write_text(json.dumps({"parts": parts, "observations": obs, "wall_s": round(time.time() - t0, 1)}, indent=1, default=str))
    print(f"extras: {[(p['module'], p['traces'], p['rejected']) for p in parts]} (module, traces, rejected) in {time.time() - t0:.1f}s")
    return 0
