"""C07 - streaming file-to-file transforms equal their whole-array definitions.

(M) WriterPipe: block-wise kernel outputs appended to disk equal the whole-array definition (extract,
    decimation with gulp rounding, sub-banding with skip-back) for every gulp and sub-range, N<=6;
    three wrong designs refuted (header patched at the end, one block held back, gulp not rounded to tf).
(T) Trace_Transforms: recorded calls of invert_freq, apply_channel_mask, extract_samps/chans/bands,
    downsample, subband, remove_zerodm on real files; every output file is parsed from disk by an
    independent reader and TLC checks declared width, sample count and data against Transforms!Def*.
"""
from __future__ import annotations

import json
import random

from .. import pool, tlc, tracecheck, transforms
from ..common import seed

DEPTH_CH = {1: [8, 16], 2: [4, 8], 4: [2, 4], 8: [2, 4, 3], 32: [2, 4, 3]}
SITES = {"invert": "Filterbank.invert_freq", "mask": "Filterbank.apply_channel_mask",
         "extract_samps": "Filterbank.extract_samps", "extract_chans": "Filterbank.extract_chans",
         "extract_bands": "Filterbank.extract_bands", "downsample": "Filterbank.downsample",
         "subband": "Filterbank.subband", "zerodm": "Filterbank.remove_zerodm"}


def op_variants(op, n, c, nbits, rng, quick):
    top = {1: 1, 2: 3, 4: 15, 8: 255, 32: 255}[nbits]
    whole = lambda nch: (nch * nbits) % 8 == 0  # noqa: E731
    if op in ("invert", "extract_samps", "zerodm"):
        return [{}]
    if op == "mask":
        ms = []
        for _ in range(2 if quick else 4):
            m = [rng.random() < 0.4 for _ in range(c)]
            ms.append({"mask": m, "value": rng.choice([0, 1, top] + ([-3, 1000] if nbits == 32 else []))})
        ms.append({"mask": [False] * c, "value": 0})
        return ms
    if op == "extract_chans":
        return [{"chans": [0]}, {"chans": [c - 1, 0], "batch_size": 1}, {"chans": list(range(c)), "batch_size": 2},
                {"chans": list(range(c))}][: 3 if quick else 4]
    if op == "extract_bands":
        out = []
        for cps in (2, 4, 8):
            for nc in (cps, 2 * cps, c):
                for c0 in (0, c - nc, 1):
                    if 0 <= c0 and c0 + nc <= c and nc % cps == 0 and 2 <= cps <= nc and whole(cps):
                        for bs in ((1, 200) if nc // cps > 1 else (200,)):
                            out.append({"chanstart": c0, "nchans": nc, "chanpersub": cps, "batch_size": bs})
        seen, uniq = set(), []
        for o in out:
            k = tuple(o.values())
            if k not in seen:
                seen.add(k)
                uniq.append(o)
        uniq.sort(key=lambda o: (-(o["nchans"] // o["chanpersub"]), o["batch_size"]))    # several bands, several batches first
        return uniq[: 3 if quick else 10]
    if op == "downsample":
        out = [{"tf": tf, "ff": ff} for tf in (1, 2, 3) for ff in (1, 2, 4) if c % ff == 0 and whole(c // ff)
               and (tf, ff) != (1, 1)]
        return out[: 4 if quick else 9]
    if op == "subband":
        out = [{"dm": dm, "nsub": ns} for dm in (0.05, 0.0, 0.2) for ns in (1, 2, c) if c % ns == 0]     # 0.05: delays of 1-2 samples at this band, so short ranges stay inside the precondition
        return out[: 4 if quick else 9]
    return [{}]


def to_event(rec, c):
    p = rec["params"]
    outs = []
    for o in rec["outs"]:
        if o.get("ok"):
            outs.append({"ok": True, "hdrlen": o["hdrlen"], "datalen": o["datalen"], "nbits": o["nbits"],
                         "nchans": o["nchans"], "isint": o["isint"], "vals": o["vals"], "valsq": o["valsq"]})
        else:
            outs.append({"ok": False, "hdrlen": 0, "datalen": 0, "nbits": 0, "nchans": 0, "isint": False,
                         "vals": [], "valsq": []})
    return {"op": rec["op"], "gulp": rec["gulp"], "start": rec["start"], "nsamps": rec["nsamps"], "q": transforms.Q,
            "outcome": rec["outcome"], "del": rec["del"], "outs": outs,
            "mask": p.get("mask", [False] * c), "value": p.get("value", 0), "chans": p.get("chans", []),
            "chanstart": p.get("chanstart", 0), "bnchans": p.get("nchans", 1), "cps": p.get("chanpersub", 1),
            "tf": p.get("tf", 1), "ff": p.get("ff", 1), "nsub": p.get("nsub", 1)}


def build_specs(rng, quick, ops, keep_snapshots=False, band=None):
    specs = []
    sid = 0

    def add(n, c, nbits, k, data, calls):
        nonlocal sid
        sid += 1
        cuts = sorted(rng.sample(range(1, n), k - 1)) if k > 1 and n > k else []
        split = [b - a for a, b in zip([0, *cuts], [*cuts, n])]
        s = {"id": sid, "seed": seed() * 7919 + sid, "N": n, "C": c, "nbits": nbits, "split": split, "data": data,
             "calls": calls, "keep_snapshots": keep_snapshots}
        if band:
            s["band"] = band
        specs.append(s)

    # (samples, depth, channels): odd channel counts (a centre channel) are part of every run
    small = [(7, 8, 4), (6, 2, 4), (8, 1, 8), (6, 32, 2), (9, 4, 4), (6, 8, 3), (5, 32, 5)] if quick else \
        [(7, 8, 4), (6, 2, 4), (8, 1, 8), (6, 32, 2), (9, 4, 4), (10, 8, 2), (8, 32, 4), (12, 2, 8), (9, 1, 16), (6, 8, 3), (5, 32, 5), (7, 8, 5),
         (8, 32, 7)]
    for n, nbits, c in small:
        ranges = [(s, m) for s in range(0, n) for m in range(1, n - s + 1)]
        rng.shuffle(ranges)
        ranges = [(0, n)] + ranges[: (8 if quick else 30)]
        gulps = [1, 2, 3, 5, n, n + 1] if quick else list(range(1, n + 2))
        for op in ops:
            calls = []
            for (start, nsamps) in ranges:
                for gulp in gulps:
                    for var in op_variants(op, n, c, nbits, rng, quick):
                        calls.append(dict(op=op, gulp=gulp, start=start, nsamps=nsamps, **var))
            rng.shuffle(calls)
            calls = calls[: (60 if quick else 400)]
            for j in range(0, len(calls), 30):
                add(n, c, nbits, 1 + (j // 30) % 3, "mid" if op == "zerodm" else ("identity", "random", "runs")[(j // 30) % 3],
                    calls[j:j + 30])
    if "downsample" in ops:
        # large decimation tiles (every tile size up to 200; 520 thorough): the mean of tf*ff values reduced to the output depth
        # is exact integer arithmetic in the definition - a division carried out as multiplication by a rounded reciprocal is not
        tiles = [(tf, 1, 1, 8) for tf in range(4, 201)] if quick else \
            [(tf, 1, 1, 8) for tf in range(4, 521)] + [(tf, 2, 2, 8) for tf in range(2, 261)] + [(tf, 2, 4, 4) for tf in range(2, 131)] + \
            [(tf, 4, 4, 32) for tf in range(2, 65)]
        for (tf, ff, c, nbits) in tiles:
            n = 2 * tf + rng.randrange(0, 3)
            add(n, c, nbits, rng.choice([1, 2]), "const" if (tf + ff) % 3 else "random",
                [dict(op="downsample", gulp=rng.choice([1, tf, tf + 1, 3 * tf, n + 1]), start=0, nsamps=n, tf=tf, ff=ff)])
    if "downsample" in ops:
        # float data of wide dynamic range: the block mean is defined on the real values, not on a float32 running sum
        for (tf, ff, c) in ([(2, 2, 4), (1, 4, 4), (3, 1, 2)] if quick else [(2, 2, 4), (1, 4, 4), (3, 1, 2), (3, 2, 4), (2, 4, 8), (5, 1, 1), (4, 2, 2)]):
            n = 3 * tf + rng.randrange(0, tf + 1)
            add(n, c, 32, rng.choice([1, 2]), f"dynrange:{tf}:{ff}",
                [dict(op="downsample", gulp=g, start=0, nsamps=n, tf=tf, ff=ff) for g in (1, tf, n + 1)])
    # at scale: files longer than any internal tiling or the default gulp's neighbourhood (2500 .. 20000 samples)
    for (n, c, nbits) in ([(2500, 4, 8)] if quick else [(2500, 4, 8), (20000, 2, 8), (3001, 8, 2), (5000, 2, 32)]):
        calls = []
        for op in ops:
            if op == "zerodm":
                continue          # its model multiplies sums over the whole range: beyond TLC's 32-bit integers at this length
            for gulp in (16384, 1000):
                vs = op_variants(op, n, c, nbits, rng, True)
                if vs:
                    calls.append(dict(op=op, gulp=gulp, start=rng.choice([0, 7]), nsamps=n - 7, **rng.choice(vs)))
        add(n, c, nbits, 2, "mid" if nbits != 32 else "mid", calls)
    for _ in range(12 if quick else 150):
        nbits = rng.choice([1, 2, 4, 8, 32])
        c = rng.choice(DEPTH_CH[nbits])
        n = rng.randrange(12, 48)
        calls = []
        for op in ops:
            start = rng.randrange(0, n - 1)
            nsamps = rng.randrange(1, n - start + 1)
            gulp = rng.choice([1, 2, 3, 5, 7, rng.randrange(1, n + 2), nsamps, nsamps + 3])
            vs = op_variants(op, n, c, nbits, rng, True)
            if vs:
                calls.append(dict(op=op, gulp=gulp, start=start, nsamps=nsamps, **rng.choice(vs)))
        mode = rng.choice(["mid", "random", "runs"])
        if nbits == 32 and mode != "mid":     # zero-DM on wide-range floats is exercised with the 'mid' class (C07 bounds it to representable output)
            calls = [x for x in calls if x["op"] != "zerodm"]
        add(n, c, nbits, rng.choice([1, 2, 3]), mode, calls)
    return specs


def run(v) -> None:
    rng = random.Random(seed())
    quick = v.tier == "quick"
    v.rule = ("calls distinct by (file, op, parameters, gulp, start, nsamps); non-trivial = >= 2 blocks or a proper "
              "sub-range or non-default parameters")
    v.assumptions += ["output files parsed by harness/fixtures.parse_sigproc + numpy decode (independent of sigpyproc)",
                      "zero-DM: one quantisation level, only where the exact value stays representable",
                      "sub-band delays are those the library reports (law: C09); nchans >= 2",
                      "extract_bands driven with chanpersub >= 2 (the code refuses 1; the property does not require it)"]
    for cfg in ("MC_WriterPipe_good.cfg",):
        v.add_tlc(tlc.must_pass(tlc.run("WriterPipe", cfg, workers=12), cfg), cfg)
    for bad in ("patchhdr", "buffered", "perblock_decim"):
        tlc.must_fail(tlc.run("WriterPipe", f"MC_WriterPipe_{bad}.cfg", workers=8), f"WriterPipe variant {bad}")
    tlc.must_fail(tlc.run("WriterPipe", "MC_WriterPipe_witness.cfg", workers=8), "witness crash mid-stream", "WitnessCrashMid")

    specs = build_specs(rng, quick, list(SITES))
    results = pool.pmap(transforms.job, specs, workers=14)
    traces = []
    skipped = 0
    for r in results:
        c = r["hdr"]["nchans"]
        evs, recs = [], []
        for rec in r["recs"]:
            if rec["op"] == "subband" and (max(rec["del"]) >= rec["nsamps"] or min(rec["del"]) < 0):
                skipped += 1
                continue
            evs.append(to_event(rec, c))
            recs.append(rec)
        traces.append({"hdr": r["hdr"], "ev": evs, "recs": recs, "spec": r["spec"]})
    nev = 0
    for t in traces:
        for e in t["ev"]:
            nev += 1
            v.evaluations += 1
            if e["gulp"] < e["nsamps"] or e["nsamps"] < t["hdr"]["N"] or e["op"] not in ("invert", "extract_samps"):
                v.nontrivial.add((t["spec"]["id"], e["op"], e["gulp"], e["start"], e["nsamps"], json.dumps(t["recs"][0]["params"])
                                  if False else json.dumps({k: e[k] for k in ("mask", "value", "chans", "chanstart", "bnchans",
                                                                                 "cps", "tf", "ff", "nsub", "del")})))
    for tr, pos in tracecheck.validate("Trace_Transforms", traces, verdict=v, label="transform calls", chunk=30):
        e = tr["ev"][abs(pos) - 1]
        rec = tr["recs"][abs(pos) - 1]
        cfg = dict(tr["spec"])
        cfg.update({"op": e["op"], "gulp": e["gulp"], "start": e["start"], "nsamps": e["nsamps"], "del": e["del"]})
        cfg.update(rec["params"])
        cfg["history"] = rec.get("pre", [])
        cfg["subrange"] = bool(e["nsamps"] < tr["hdr"]["N"])
        cfg["multiblock"] = bool(e["gulp"] < e["nsamps"])
        clause = "OutputIsDef" if e["outcome"] == "ok" else "MustNotRaise"
        obs = {"outcome": e["outcome"], "msg": rec.get("msg", ""),
               "outs": [{k: (o[k][:12] if isinstance(o[k], list) else o[k]) for k in o} for o in e["outs"][:3]]}
        v.violation(clause, SITES[e["op"]], cfg, obs, "Transforms!Def* (see Trace_Transforms!EvOK)")
    v.traces += nev
    v.extra["calls_validated"] = nev
    v.extra["subband_calls_outside_precondition"] = skipped
    for t in traces[:2]:
        if t["ev"]:
            e = t["ev"][0]
            v.sample({"file": t["spec"], "call": {k: e[k] for k in ("op", "gulp", "start", "nsamps", "outcome")},
                      "out0": {k: (e["outs"][0][k][:10] if isinstance(e["outs"][0][k], list) else e["outs"][0][k])
                               for k in e["outs"][0]} if e["outs"] else None})


def replay(v, path) -> None:
    data = json.loads(open(path).read())
    for case in data["cases"][:2]:
        c = case["cfg"]
        call = {k: c[k] for k in c if k in ("op", "gulp", "start", "nsamps", "mask", "value", "chans", "chanstart", "nchans",
                                            "chanpersub", "tf", "ff", "dm", "nsub")}
        spec = {"id": 0, "seed": seed(), "N": c["N"], "C": c["C"], "nbits": c["nbits"], "split": c["split"],
                "data": c["data"], "calls": [call]}
        r = transforms.job(spec)
        print("replayed:", {k: r["recs"][0][k] for k in ("op", "outcome", "outnames")},
              [{k: o.get(k) for k in ("nbits", "nchans", "datalen", "vals")} for o in r["recs"][0]["outs"]])
    run(v)
