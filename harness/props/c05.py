"""C05 - SIGPROC headers survive encode/parse; in-place edits touch only their key.

(M) MC_SigprocCodec: Parse(Enc(h)) = h and Enc(Parse(b)) = b for every ordered selection of <= 2 (3 thorough)
    keys of a representative alphabet; a length-preserving rewrite satisfies EditRewrites, a length-changing
    one cannot.  MC_HeaderFields: frame <-> flags and signed sexagesimal digits are bijective on a grid that
    contains every declination within a degree of 0; the pinned commit's two decoders are refuted.
(T) Trace_SigprocCodec: headers built from random subsets/orders of ALL recognised keys are written with an
    independent encoder, parsed with parse_header and re-encoded with encode_header (TLC re-parses the bytes);
    edit_header is called with valid and invalid (key, value) pairs on files with data and the whole file is
    compared before/after; Header objects with random physical fields are written with prep_outfile and read
    back with Header.from_sigproc, fields projected to integers.
"""
from __future__ import annotations

import json
import random
import struct

import numpy as np

from .. import fixtures, pool, tlc, tracecheck
from ..common import seed

KEYS = fixtures.KEYS
DOUBLES = [0.0, 1.0, -4.0, 1500.0, 6.4e-5, 58000.5, -0.1, 1.0 / 3.0, -3015.5, 123456.789]
STRS = ["", "J0534+2200", "a b", "x" * 40, "verif.fil", "J1 ", " lead", "  pad  ", "tab\t",
        # longer than the 80 characters of the original C tools; a full archive path; key names (and the end marker) as TEXT inside a value
        "y" * 81, "/archive/2026/10/01/" + "deep/" * 30 + "scan_0001.fil", "scan_fch1_1400_nbits8_tsamp_64us_nchans.fil",
        "x_HEADER_END_y", "HEADER_START"]


def pay_of(key, val):
    fmt = KEYS[key]
    if fmt == "str":
        return list(val.encode())
    return list(struct.pack("<" + fmt, val))


def rand_items(rng, kmin=2):
    keys = list(KEYS)
    rng.shuffle(keys)
    keys = keys[: rng.randrange(kmin, len(keys) + 1)]
    # nbits / nchans must be present for parse_header to derive nsamples
    for need in ("nbits", "nchans"):
        if need not in keys:
            keys.insert(rng.randrange(0, len(keys) + 1), need)
    items = []
    for k in keys:
        fmt = KEYS[k]
        if k == "nbits":
            val = rng.choice([1, 2, 4, 8, 16, 32])
        elif k == "nchans":
            val = rng.choice([1, 2, 64, 1024])
        elif fmt == "I":
            val = rng.choice([0, 1, 7, 64, 70000, 2 ** 24 + 5, 2 ** 31, 2 ** 32 - 1])
        elif fmt == "b":
            val = rng.choice([0, 1])
        elif fmt == "d":
            val = rng.choice(DOUBLES + [rng.uniform(-1e5, 1e5)])
        else:
            val = rng.choice(STRS)
        items.append((k, val))
    return items


def codec_job(spec):
    from sigpyproc.io import sigproc
    d = pool.worker_scratch()
    rng = random.Random(spec["seed"])
    evs = []
    for i in range(spec["nparse"]):
        items = rand_items(rng)
        hb = fixtures.encode_header(items)
        data = bytes(rng.randrange(256) for _ in range(rng.choice([0, 3, 16])))
        p = d / f"h_{spec['id']}_{i}.fil"
        p.write_bytes(hb + data)
        e = {"a": "parse", "file": list(hb + data), "items": [], "hdrlen": -1, "reenc": [], "cfg": {"keys": [k for k, _ in items]}}
        try:
            hd = sigproc.parse_header(str(p))
            e["items"] = [{"key": k, "pay": pay_of(k, v)} for k, v in hd.items() if k in KEYS]
            e["hdrlen"] = int(hd["hdrlen"])
            e["reenc"] = list(sigproc.encode_header(hd))
            e["outcome"] = "ok"
        except Exception as exc:  # noqa: BLE001
            e["outcome"] = f"raise:{type(exc).__name__}"
        evs.append(e)
    for i in range(spec["nedit"]):
        items = rand_items(rng, kmin=6)
        decoy = i % 6 == 0
        if decoy:      # a string value, EARLIER in the header, that contains the names of keys that follow it
            items = [(k, v) for k, v in items if k != "rawdatafile"]
            items.insert(0, ("rawdatafile", "scan_fch1_1400_nbits8_tsamp_64us_nchans_refdm.fil"))
            for k, v in (("fch1", 1400.0), ("tsamp", 6.4e-5), ("refdm", 1.0)):
                if k not in [kk for kk, _ in items]:
                    items.append((k, v))
        hb = fixtures.encode_header(items)
        data = bytes(rng.randrange(256) for _ in range(rng.choice([1, 8, 33])))
        p = d / f"e_{spec['id']}_{i}.fil"
        p.write_bytes(hb + data)
        present = [k for k, _ in items]
        r = rng.random()
        if decoy:
            key = rng.choice(["fch1", "nbits", "tsamp", "nchans", "refdm"])
        elif r < 0.55:
            key = rng.choice(present)
        elif r < 0.8:
            key = rng.choice([k for k in KEYS if k not in present] or present)
        else:
            key = rng.choice(["bogus_key", "HEADER_END", "nsamples", ""])
        fmt = KEYS.get(key, "d")
        kind = rng.random()
        if fmt == "str":
            old = dict(items).get(key, "")
            val = rng.choice([old, old[::-1], old + "zz", old[:-1] if old else "q", "", "N" * 5]) if kind < 0.85 else 12
        elif fmt == "d":
            val = rng.choice(DOUBLES) if kind < 0.85 else "notanumber"
        elif fmt == "I":
            val = rng.choice([0, 5, 70000]) if kind < 0.8 else rng.choice([-1, 2 ** 33, "x", 1.5])
        else:
            val = rng.choice([0, 1]) if kind < 0.8 else rng.choice([300, "x"])
        try:
            pay = pay_of(key, val) if key in KEYS else []
        except Exception:  # noqa: BLE001
            pay = []
        before = p.read_bytes()
        try:
            sigproc.edit_header(str(p), key, val)
            oc = "ok"
        except Exception as exc:  # noqa: BLE001
            oc = f"raise:{type(exc).__name__}"
        after = p.read_bytes()
        evs.append({"a": "edit", "before": list(before), "after": list(after), "key": key if key in KEYS else "nbits",
                    "validkey": key in KEYS, "pay": pay, "outcome": "ok" if (oc == "ok") else "raise",
                    "cfg": {"key": key, "value": repr(val), "present": key in present, "exc": oc}})
    return evs


def _proj(h):
    from astropy import units as u
    frame = str(h.frame)
    dbl = [list(struct.pack("<d", float(x))) for x in (h.tsamp, h.tstart, h.fch1, h.foff, h.dm)]
    return {"frame": frame, "telescope": int(h.telescope_id), "backend": int(h.machine_id), "ibeam": int(h.ibeam),
            "nbeams": int(h.nbeams), "nbits": int(h.nbits), "nchans": int(h.nchans), "nifs": int(h.nifs),
            "source": list(str(h.source).encode()),
            "dec_cas": int(round(h.coord.dec.to(u.arcsec).value * 100)),
            "ra_cas": int(round(h.coord.ra.to(u.arcsec).value * 100 / 15.0)),       # in centi-seconds of TIME x 1: 0.15" units
            "az_udeg": int(round(h.azimuth.deg * 1e6)), "za_udeg": int(round(h.zenith.deg * 1e6)), "dbl": dbl}


def fields_job(spec):
    from astropy import units as u
    from astropy.coordinates import Angle, SkyCoord
    from sigpyproc.header import Header
    from sigpyproc.io import sigproc
    from sigpyproc.readers import FilReader
    d = pool.worker_scratch()
    rng = random.Random(spec["seed"])
    p0 = d / f"f_{spec['id']}_in.fil"
    fixtures.write_fil(p0, np.zeros(8, dtype=np.int64), 4, 8)
    base = FilReader(str(p0)).header
    tels, backs = list(sigproc.telescope_ids), list(sigproc.machine_ids)
    evs = []
    for i in range(spec["n"]):
        dec_cas = rng.choice([rng.randrange(-360000, 360001), rng.randrange(-32400000 + 1, 32400000), -181550, -1, -99, 0,
                              -359999, 359999, -5999, -6000, 21599999, -21599999])
        ra_cs = rng.choice([rng.randrange(0, 8640000), 0, 8639999, 360000, 359999])    # centi-seconds of time
        if i % 11 == 5:      # within a hair of the origin of either coordinate: seconds fields of a few 1e-5 (written in exponent form by str())
            ra_cs, dec_cas = rng.choice([0.003, 0.001, 0.0002]), rng.choice([-0.004, 0.003, -0.0001])
        upd = {"coord": SkyCoord(ra=(ra_cs / 100.0 / 3600.0) * u.hourangle, dec=(dec_cas / 100.0 / 3600.0) * u.deg),
               # angles are given in whatever unit the caller likes: degrees, radians, hour angle, arcmin
               "azimuth": Angle(rng.choice([0.0, 12.5, 359.999999, rng.uniform(0, 360)]) * u.deg).to(rng.choice([u.deg, u.rad, u.hourangle, u.arcmin])),
               "zenith": Angle(rng.choice([0.0, 45.25, 89.999, rng.uniform(0, 90)]) * u.deg).to(rng.choice([u.deg, u.rad, u.arcmin])),
               "telescope": rng.choice(tels), "backend": rng.choice(backs), "frame": rng.choice(["topocentric", "barycentric", "pulsarcentric"]),
               "ibeam": rng.choice([0, 1, 13]), "nbeams": rng.choice([0, 1, 13]), "dm": rng.choice(DOUBLES[:8]),
               "source": rng.choice(STRS[1:4] + STRS[5:8] + STRS[9:12]), "tsamp": rng.choice([6.4e-5, 1.0 / 3.0, 0.001, 10.0, 12.5, 1000.0]),
               "tstart": rng.choice([50000.0, 58000.123456789]), "fch1": rng.choice([1500.0, 433.1]),
               "foff": rng.choice([-0.1, 1.0 / 3.0, -4.0]), "nchans": rng.choice([1, 4, 1024]), "nbits": rng.choice([1, 2, 4, 8, 16, 32]),
               "nifs": rng.choice([1, 2])}
        e = {"a": "fields", "cfg": {k: (str(v) if not isinstance(v, (int, float, str)) else v) for k, v in upd.items()} | {"dec_cas": dec_cas}}
        try:
            hin = base.new_header(upd)
            path = str(d / f"f_{spec['id']}_{i}.fil")
            # one call in three asks for another sample depth through the nbits ARGUMENT (as requantize / to_tim do); the calls of a
            # job share one process, so whatever prep_outfile leaves behind is there for the next, plain, call
            nb_arg = rng.choice([1, 2, 4, 8, 16, 32]) if i % 3 == 1 else None
            if i % 6 == 4:       # some fields through the `updates` argument TOGETHER with a depth override (each alone is the common case)
                nb_arg = rng.choice([1, 2, 4, 8, 16, 32])
                part = {k: upd[k] for k in ("tstart", "tsamp", "dm", "source", "ibeam", "fch1")}
                h0 = base.new_header({k: v for k, v in upd.items() if k not in part})
                w = h0.prep_outfile(path, updates=dict(part), nbits=nb_arg)
            else:
                w = hin.prep_outfile(path) if nb_arg is None else hin.prep_outfile(path, nbits=nb_arg)
            w.close()
            hout = Header.from_sigproc(path)
            e["fin"], e["fout"] = _proj(hin), _proj(hout)
            if nb_arg is not None:
                e["fin"]["nbits"] = nb_arg
                e["cfg"]["nbits_arg"] = nb_arg
            e["outcome"] = "ok"
        except Exception as exc:  # noqa: BLE001
            e["outcome"] = f"raise:{type(exc).__name__}:{str(exc)[:60]}"
            z = {"frame": "x", "telescope": 0, "backend": 0, "ibeam": 0, "nbeams": 0, "nbits": 0, "nchans": 0, "nifs": 0, "source": [],
                 "dec_cas": 0, "ra_cas": 0, "az_udeg": 0, "za_udeg": 0, "dbl": []}
            e["fin"], e["fout"] = z, z
        evs.append(e)
    return evs


def run(v) -> None:
    quick = v.tier == "quick"
    v.rule = ("events distinct by content; non-trivial = parse of a header with >= 6 keys, any edit, any field tuple with a "
              "non-default frame or a declination within 1 degree of 0")
    v.assumptions += ["doubles compared as their 8 bytes (struct.pack of the parsed float is exact)",
                      "coordinates to 0.01 arcsec in Dec, 0.015 arcsec in RA (SIGPROC keeps 4 decimals of hhmmss.ssss)"]
    v.add_tlc(tlc.must_pass(tlc.run("MC_SigprocCodec", "MC_SigprocCodec.cfg" if quick else "MC_SigprocCodec_big.cfg", workers=8, timeout=6000), "MC_SigprocCodec"), "MC_SigprocCodec")
    v.add_tlc(tlc.must_pass(tlc.run("MC_HeaderFields", "MC_HeaderFields.cfg", workers=4), "MC_HeaderFields"), "MC_HeaderFields")
    tlc.must_fail(tlc.run("MC_HeaderFields", "MC_HeaderFields_pinframe.cfg", workers=2), "pinned frame decoder", "FrameRoundTrip")
    tlc.must_fail(tlc.run("MC_HeaderFields", "MC_HeaderFields_pinangle.cfg", workers=2), "pinned angle decoder", "AngleRoundTrip")
    nj = 12
    cs = [{"id": i, "seed": seed() * 101 + i, "nparse": 12 if quick else 120, "nedit": 25 if quick else 250} for i in range(nj)]
    fs = [{"id": i, "seed": seed() * 103 + i, "n": 30 if quick else 300} for i in range(nj)]
    evs = [e for r in pool.pmap(codec_job, cs, workers=12) for e in r] + [e for r in pool.pmap(fields_job, fs, workers=12) for e in r]
    traces = []
    for i in range(0, len(evs), 10):
        part = evs[i:i + 10]
        traces.append({"hdr": {}, "ev": [{k: e[k] for k in e if k != "cfg"} for e in part], "full": part})
    for e in evs:
        v.evaluations += 1
        if e["a"] != "parse" or len(e["items"]) >= 6:
            v.nontrivial.add(json.dumps(e["cfg"], sort_keys=True, default=str) + e["a"])
    for tr, pos in tracecheck.validate("Trace_SigprocCodec", traces, verdict=v, label="codec/edit/fields events", chunk=40):
        e = tr["full"][abs(pos) - 1]
        if e["a"] == "parse":
            clause, site = "ParseEncodeRoundTrip", "sigproc.parse_header/encode_header"
            obs = {"outcome": e["outcome"], "hdrlen": e["hdrlen"], "nitems": len(e["items"])}
        elif e["a"] == "edit":
            clause, site = "EditTouchesOnlyItsKey", "sigproc.edit_header"
            obs = {"outcome": e["outcome"], "len_before": len(e["before"]), "len_after": len(e["after"]),
                   "changed": e["before"] != e["after"]}
        else:
            clause, site = "FieldsSurvive", "Header.prep_outfile/Header.from_sigproc"
            diff = {k: (e["fin"][k], e["fout"][k]) for k in e["fin"] if e["fin"][k] != e["fout"][k]}
            obs = {"outcome": e["outcome"], "differs": {k: diff[k] for k in list(diff)[:4]}}
            if set(diff) == {"frame"}:
                clause = "FrameSurvives"
            elif set(diff) <= {"dec_cas", "ra_cas"} and diff:
                clause = "SkyPositionSurvives"
        v.violation(clause, site, e["cfg"], obs, "Trace_SigprocCodec!EvOK")
    v.traces += len(evs)
    for a in ("parse", "edit", "fields"):
        e = next(x for x in evs if x["a"] == a)
        v.sample({"event": a, "cfg": e["cfg"], "outcome": e["outcome"]})


def replay(v, path) -> None:
    print(open(path).read()[:1500])
    run(v)
