"""C09 - one dispersion law, applied identically by every dedispersion path.

(M) MC_Dispersion: on the exact rational law (small-rational bands, DMs of either sign, four reference
    choices): zero at the reference, antisymmetry in DM, monotonicity in frequency, at most two admissible
    roundings, reference-independence of delay differences; on the index maps (all delay vectors of either
    sign, |d|<=3, C<=3, n<=6): roll then un-roll is the identity, the paths agree on their common support,
    a pulse placed at t0+delay_c lands in one column.
(T) Trace_Dispersion: Header.get_dmdelays (all reference choices, samples and seconds) must lie in
    DelaySet; FilterbankBlock.dedisperse (both modes, several references), Filterbank.dedisperse,
    FilReader.read_dedisp_block, dmt_transform (both modes, each row against the DM it reports) and the
    DM/-DM identity are compared element by element with the index maps, integer data.
"""
from __future__ import annotations

import json
import random
from fractions import Fraction

import numpy as np

from .. import fixtures, pool, tlc, tracecheck
from ..common import seed

K_TS = 4.148808


def _call(fn):
    try:
        return "ok", fn()
    except Exception as exc:  # noqa: BLE001
        return f"raise:{type(exc).__name__}:{str(exc)[:70]}", None


def _mat(a):
    a = np.asarray(a)
    if a.ndim == 1:
        a = a[None, :]
    if not np.all(np.isfinite(a)) or not np.all(a == np.round(a)):
        return [[-999999]]
    return [[int(x) for x in row] for row in a]


def job(spec):
    from sigpyproc.readers import FilReader
    d = pool.worker_scratch()
    rng = np.random.default_rng(spec["seed"])
    evs = []
    for bi, b in enumerate(spec["bands"]):
        fch1, foff, C, qn, qd, n = b["fch1"], b["foff"], b["C"], b["qn"], b["qd"], b["n"]
        tsamp = K_TS * qn / qd
        data = rng.integers(0, 200, size=(n, C), dtype=np.int64)
        if bi % 2 == 1 and n >= 9:      # every other band as a contiguous set of three files: streamed dedispersion rewinds across file boundaries
            a1 = int(rng.integers(1, n // 2))
            a2 = int(rng.integers(a1 + 1, n - 1))
            fil = FilReader(fixtures.write_set(d, f"c09_{spec['id']}_{bi}", data, 32, [a1, a2 - a1, n - a2], fch1=float(fch1), foff=float(foff), tsamp=tsamp))
        else:
            p = d / f"c09_{spec['id']}_{bi}.fil"
            fixtures.write_fil(p, data.ravel(), C, 32, fch1=float(fch1), foff=float(foff), tsamp=tsamp)
            fil = FilReader(str(p))
        X = [[int(x) for x in data[:, c]] for c in range(C)]
        base = {"fch1": fch1, "foff": foff, "C": C, "qn": qn, "qd": qd, "n": n}
        for (pp, rr) in b["dms"]:
            dm = pp / rr
            # ---- the law ----
            for kind in b["refs"]:
                if kind == "num":
                    ref2 = int(2 * fch1 + 3)          # an arbitrary numeric reference (half-MHz units)
                    arg = ref2 / 2.0
                else:
                    ref2, arg = 0, kind
                oc, r = _call(lambda: fil.header.get_dmdelays(dm, ref_freq=arg))
                oc2, r2 = _call(lambda: fil.header.get_dmdelays(dm, ref_freq=arg, in_samples=False))
                e = dict(base, a="delays", p=pp, r=rr, kind=kind, ref2=ref2, outcome=oc if oc == "ok" else oc,
                         obs=[int(x) for x in np.atleast_1d(r)] if r is not None else [],
                         obsq=[int(round(float(x) / tsamp * 64)) for x in np.atleast_1d(r2)] if r2 is not None else [])
                if oc2 != "ok":
                    e["outcome"] = oc2
                evs.append(e)
            # ---- the paths ----
            dl = [int(x) for x in np.atleast_1d(fil.header.get_dmdelays(dm))]
            blk = fil.read_block(0, n)

            def path(name, fn, delv, s=0, m=0, delmat=None, hdr=True):
                oc, r = _call(fn)
                e = dict(base, a="path", path=name, p=pp, r=rr, X=X, s=s, m=m, outcome=oc, out=[[0]], nhdr=-1,
                         delmat=delmat if delmat is not None else [[0] * C])
                e["del"] = delv
                if r is not None:
                    e["out"] = _mat(r.data)
                    e["nhdr"] = int(r.header.nsamples) if hdr else len(e["out"][0])
                evs.append(e)
            for ref in b["blockrefs"]:
                dlr = [int(x) for x in np.atleast_1d(fil.header.get_dmdelays(dm, ref_freq=ref))]
                path("roll", lambda: blk.dedisperse(dm, ref_freq=ref), dlr)
                if max(max(dlr), 0) - min(min(dlr), 0) < n:
                    path("valid", lambda: blk.dedisperse(dm, ref_freq=ref, only_valid_samples=True), dlr)
            path("rollback", lambda: blk.dedisperse(dm).dedisperse(-dm), dl)
            if min(dl) >= 0 and max(dl) < n:
                for gulp in b["gulps"]:
                    path("stream", lambda: fil.dedisperse(dm, gulp=gulp, quiet=True), dl)
            # read_dedisp_block: every window whose dedispersed footprint lies in the file - delays of EITHER sign
            # (negative DM, or a band whose first channel is not the reference end)
            wins = list(b["windows"]) + [(max(0, -min(dl)), 2), (max(0, -min(dl)) + 1, 1)]
            for (s, m) in wins:
                if s + min(dl) >= 0 and s + m + max(dl) <= n and m >= 1:
                    path("readdd", lambda: fil.read_dedisp_block(s, m, dm), dl, s=s, m=m)
            if pp != 0:
                for steps in b["dmsteps"]:
                    def rows(valid):
                        r = blk.dmt_transform(dm, dmsteps=steps, only_valid_samples=valid)
                        return r
                    for valid in (False, True):
                        oc, r = _call(lambda: rows(valid))
                        e = dict(base, a="path", path="dmtvalid" if valid else "dmt", p=pp, r=rr, X=X, s=0, m=0, outcome=oc,
                                 out=[[0]], nhdr=-1, delmat=[[0] * C])
                        e["del"] = dl
                        if r is not None:
                            e["out"] = _mat(r.data)
                            e["nhdr"] = int(r.header.nsamples)
                            dms = [float(x) for x in np.atleast_1d(r.dms)]
                            e["delmat"] = [[int(x) for x in np.atleast_1d(fil.header.get_dmdelays(dmi))] for dmi in dms]
                            rng_d = max(max(map(max, e["delmat"])), 0) - min(min(map(min, e["delmat"])), 0)
                            if valid and rng_d >= n:
                                continue
                        elif valid:
                            # the valid variant legitimately refuses when no column survives
                            dmat = [[int(x) for x in np.atleast_1d(fil.header.get_dmdelays(dmi))]
                                    for dmi in (dm + np.linspace(-dm, dm, steps))]
                            if max(max(map(max, dmat)), 0) - min(min(map(min, dmat)), 0) >= n:
                                continue
                            e["delmat"] = dmat
                        evs.append(e)
                # the valid-samples variant at its boundary: a block of EXACTLY span + 1 samples has one valid column
                steps = b["dmsteps"][0]
                dmat = [[int(x) for x in np.atleast_1d(fil.header.get_dmdelays(dmi))] for dmi in (dm + np.linspace(-dm, dm, steps))]
                span = max(max(map(max, dmat)), 0) - min(min(map(min, dmat)), 0)
                if 0 < span < n:
                    sub = fil.read_block(0, span + 1)
                    oc, r = _call(lambda: sub.dmt_transform(dm, dmsteps=steps, only_valid_samples=True))
                    e = dict(base, a="path", path="dmtvalid", p=pp, r=rr, X=[row[: span + 1] for row in X], s=0, m=0, outcome=oc, out=[[0]], nhdr=-1,
                             delmat=dmat)
                    e["del"] = dl
                    e["n"] = span + 1
                    if r is not None:
                        e["out"] = _mat(r.data)
                        e["nhdr"] = int(r.header.nsamples)
                        e["delmat"] = [[int(x) for x in np.atleast_1d(fil.header.get_dmdelays(float(dmi)))] for dmi in np.atleast_1d(r.dms)]
                    evs.append(e)
        fil._file.close()
    return evs


def run(v) -> None:
    rng = random.Random(seed())
    quick = v.tier == "quick"
    v.rule = ("events distinct by (band, tsamp, DM, reference / path, data); non-trivial = a non-zero DM")
    v.assumptions += ["bands are small integers in MHz with tsamp = 4.148808*qn/qd s so that the exact delay is a small rational",
                      "tie band: 2^-17 * (|term1| + |term2|) around a half-integer", "integer data (exact sums)",
                      "valid-only variants: the common time origin is shifted by the most negative delay"]
    v.add_tlc(tlc.must_pass(tlc.run("MC_Dispersion", "MC_Dispersion_law.cfg", workers=4), "law"), "MC_Dispersion_law")
    v.add_tlc(tlc.must_pass(tlc.run("MC_Dispersion", "MC_Dispersion_maps.cfg", workers=4), "maps"), "MC_Dispersion_maps")
    dms_all = [(0, 1), (1, 5), (2, 5), (1, 10), (7, 10), (1, 1), (-1, 5), (-2, 5), (3, 2), (-7, 10)]
    bands = []
    for fch1, foff, C in ([(8, -1, 4), (12, -2, 3), (6, 1, 3)] if quick else [(8, -1, 4), (12, -2, 3), (6, 1, 3), (16, -1, 6), (9, -1, 2), (5, 1, 4)]):
        for (qn, qd) in ([(1, 1), (2, 1)] if quick else [(1, 1), (2, 1), (1, 2)]):
            n = rng.choice([10, 13, 16])
            bands.append({"fch1": fch1, "foff": foff, "C": C, "qn": qn, "qd": qd, "n": n,
                          "dms": dms_all[: (6 if quick else 10)], "refs": ["ch1", "max", "min", "center", "num"],
                          "blockrefs": ["ch1", "center"] if quick else ["ch1", "center", "max", "min"],
                          "gulps": [n + 1, 3] if quick else [n + 1, 1, 3, 5],
                          "windows": [(0, 3), (2, 4)] if quick else [(0, 3), (2, 4), (1, 1), (0, n)],
                          "dmsteps": [3] if quick else [2, 3, 5]})
    specs = [{"id": i, "seed": seed() * 23 + i, "bands": bands[i::8]} for i in range(8)]
    evs = [e for r in pool.pmap(job, specs, workers=8) for e in r]
    traces = [{"hdr": {}, "ev": evs[i:i + 25]} for i in range(0, len(evs), 25)]
    for e in evs:
        v.evaluations += 1
        if e["p"] != 0:
            v.nontrivial.add(json.dumps({k: e[k] for k in e if k not in ("X", "out", "obs", "obsq", "delmat")}, sort_keys=True))
    site = {"roll": "FilterbankBlock.dedisperse", "valid": "FilterbankBlock.dedisperse(only_valid_samples)",
            "rollback": "FilterbankBlock.dedisperse(dm).dedisperse(-dm)", "stream": "Filterbank.dedisperse",
            "readdd": "FilReader.read_dedisp_block", "dmt": "FilterbankBlock.dmt_transform",
            "dmtvalid": "FilterbankBlock.dmt_transform(only_valid_samples)"}
    for tr, pos in tracecheck.validate("Trace_Dispersion", traces, verdict=v, label="delay and path events", chunk=12):
        e = tr["ev"][abs(pos) - 1]
        cfg = {k: e[k] for k in ("fch1", "foff", "C", "qn", "qd", "n", "p", "r")}
        if e["a"] == "delays":
            cfg["ref"] = e["kind"]
            v.violation("DelayLaw", "Header.get_dmdelays", cfg, {"outcome": e["outcome"], "delays": e["obs"], "obsq": e["obsq"]},
                        "Dispersion!DelaySet")
        else:
            cfg.update({"path": e["path"], "del": e["del"], "s": e["s"], "m": e["m"]})
            v.violation("PathIsIndexMap" if e["outcome"] == "ok" else "MustNotRaise", site[e["path"]], cfg,
                        {"outcome": e["outcome"], "nhdr": e["nhdr"], "out0": e["out"][0][:12], "rows": len(e["out"])},
                        "Dispersion index map (Trace_Dispersion!PathOK)")
    v.traces += len(evs)
    for a in ("delays", "path"):
        e = next(x for x in evs if x["a"] == a and x["p"] != 0)
        v.sample({k: (e[k] if k not in ("X",) else "...") for k in e if k not in ("delmat",)})


def replay(v, path) -> None:
    print(open(path).read()[:1500])
    run(v)
