"""C11 - folding puts every sample in exactly one bin fixed by the phase model.

(M) MC_Fold: for every geometry (N<=7, C<=2, nbins<=3, nints<=2, nbands<=2, two period ratios, with and
    without acceleration, three delay vectors) and every gulp: folding block by block over the plan
    (skip = maxdelay, gulp = max(2*maxdelay, gulp), index ii*(gulp-maxdelay)) equals the whole-array
    definition; every sample lands in exactly one cell; counts sum to the samples folded; a periodic
    pulse train occupies one phase bin; the linear-time definition equals the set-builder one.
(T) Trace_Fold: Filterbank.fold (several gulps incl. gulp < 2*maxdelay), TimeSeries.fold and kernels.fold
    called directly, on integer data, geometries with exact rational phase (no ties): kernel sums/counts
    exactly, public cubes as sum/count, empty cells NaN - all recomputed by TLC from the phase formula.
"""
from __future__ import annotations

import json
import math
import random

import numpy as np

from .. import fixtures, pool, tlc, tracecheck
from ..common import seed

C_LIGHT = 299792458.0
TSAMP = 0.5


def _cells(cube, public):
    a = np.asarray(cube, dtype=np.float64).ravel()
    out = []
    for x in a:
        if not math.isfinite(x):
            out.append({"meanq": 0, "nan": True, "sum": 0, "count": 0})
        else:
            out.append({"meanq": int(round(x * 64)), "nan": False, "sum": 0, "count": 0})
    return out


def job(spec):
    from sigpyproc.core import kernels
    from sigpyproc.readers import FilReader
    d = pool.worker_scratch()
    rng = np.random.default_rng(spec["seed"])
    evs = []
    for gi, g in enumerate(spec["geoms"]):
        N, C = g["N"], g["C"]
        data = rng.integers(0, 200, size=(N, C), dtype=np.int64)
        if g.get("pulse"):                       # strictly periodic pulse train on a flat baseline
            data[:] = 10
            data[g["pulse"]::g["pn"], :] = 150
        nb = 32 if (C == 1 or gi % 3 == 2) else 8
        if nb == 32:                              # float samples are signed: a cell mean may be negative or exactly zero
            data = data - 100
        # every other geometry is stored as a contiguous set of three files (folding rewinds by the maximum delay between gulps:
        # the rewind then lands in another file than the one being read)
        if gi % 2 == 1 and N >= 12:
            a1 = int(rng.integers(1, N // 2))
            a2 = int(rng.integers(a1 + 1, N - 1))
            names = fixtures.write_set(d, f"c11_{spec['id']}_{gi}", data, nb, [a1, a2 - a1, N - a2], fch1=8.0, foff=-1.0, tsamp=TSAMP)
            fil = FilReader(names)
        else:
            p = d / f"c11_{spec['id']}_{gi}.fil"
            fixtures.write_fil(p, data.ravel(), C, nb, fch1=8.0, foff=-1.0, tsamp=TSAMP)
            fil = FilReader(str(p))
        period = g["pn"] / g["pd"] * TSAMP
        accel = 2 * C_LIGHT * (g["kn"] / g["kd"]) / TSAMP
        dm = g["dm"]
        dl = [int(x) for x in np.atleast_1d(fil.header.get_dmdelays(dm))] if C > 1 else [0]
        if min(dl) < 0 or max(dl) >= N // 4:
            dl, dm = [0] * C, 0.0
        gg = {"N": N, "C": C, "nbins": g["nbins"], "nints": g["nints"], "nbands": g["nbands"], "pn": g["pn"], "pd": g["pd"],
              "kn": g["kn"], "kd": g["kd"], "del": dl}
        vals = [int(x) for x in data.ravel()]

        def ev(api, gulp, fn, gmod=None):
            e = {"a": "fold", "api": api, "g": dict(gg, **(gmod or {})), "gulp": gulp, "vals": vals, "cells": []}
            try:
                e["cells"] = fn()
                e["outcome"] = "ok"
            except Exception as exc:  # noqa: BLE001
                e["outcome"] = f"raise:{type(exc).__name__}:{str(exc)[:70]}"
            evs.append(e)

        nb_eff = min(g["nbands"], C)
        if C > 1 and (N * C) // (g["nbands"] * g["nints"] * g["nbins"]) >= 10:   # one channel: TimeSeries.fold
            for gulp in g["gulps"]:
                ev("fil", gulp, lambda: _cells(fil.fold(period, dm, accel=accel, nbins=g["nbins"], nints=g["nints"],
                                                        nbands=g["nbands"], gulp=gulp, quiet=True).data, True))
        # the kernel itself, whole array in one call
        def kern():
            fold_ar = np.zeros(g["nbins"] * g["nints"] * nb_eff, dtype=np.float32)
            count_ar = np.zeros(g["nbins"] * g["nints"] * nb_eff, dtype=np.int32)
            arr = data.ravel().astype(np.uint8 if nb == 8 else np.float32)
            kernels.fold(arr, fold_ar, count_ar, np.array(dl, dtype=np.int32), max(dl), TSAMP, period, accel, N, N, C,
                         g["nbins"], g["nints"], nb_eff, 0)
            return [{"meanq": 0, "nan": False, "sum": int(s), "count": int(c)} for s, c in zip(fold_ar, count_ar)]
        ev("kernel", N, kern)
        if C == 1 and N // (g["nbins"] * g["nints"]) >= 10:
            ts = fil.collapse(quiet=True)
            ev("tim", N, lambda: _cells(ts.fold(period, accel=accel, nbins=g["nbins"], nints=g["nints"]).data, True),
               gmod={"nbands": 1})
        fil._file.close()
    return evs


def run(v) -> None:
    rng = random.Random(seed())
    quick = v.tier == "quick"
    v.rule = "folds distinct by (geometry, data, api, gulp); non-trivial = multi-block gulp or DM != 0 or acceleration != 0"
    v.assumptions += ["period/tsamp = pn/pd with pn*kd odd: the exact phase is never on a bin boundary (distance >= 1/(2*pn*kd)) - except four geometries with period/tsamp = 2*nbins, nbins a power of two, where every other sample is exactly on an edge and the arithmetic is exact",
                      "tsamp = 0.5 s (exact in float32); acceleration 2c*kappa with kappa*tsamp = kn/kd",
                      "whole-file folds; delays as reported by the library; N/nints and C/nbands exact or coprime (no float ties)"]
    v.add_tlc(tlc.must_pass(tlc.run("MC_Fold", "MC_Fold.cfg", workers=12, timeout=3000), "MC_Fold"), "MC_Fold")
    geoms = []
    ratios = [(25, 2), (7, 1), (5, 1), (33, 4), (9, 2), (15, 1)]
    for _ in range(70 if quick else 900):
        C = rng.choice([1, 2, 3, 4, 4])
        N = rng.choice([60, 96, 120, 75])
        pn, pd = rng.choice(ratios)
        kn, kd = rng.choice([(0, 1), (0, 1), (1, 101), (-1, 101)])
        nints = rng.choice([1, 2, 3])
        if N % nints and math.gcd(N, nints) != 1:
            nints = 1
        nbands = rng.choice([1, 2, 3, 5])
        nb_eff = min(nbands, C)
        if C % nb_eff and math.gcd(C, nb_eff) != 1:
            nbands = 1
        geoms.append({"N": N, "C": C, "nbins": rng.choice([2, 3, 4]), "nints": nints, "nbands": nbands, "pn": pn, "pd": pd,
                      "kn": kn, "kd": kd, "dm": rng.choice([0.0, 0.02, 0.05, 0.1]),      # delays up to ~20 samples at 5..8 MHz, tsamp 0.5 s
                      "gulps": [N + 5, rng.choice([7, 13, 33]), rng.choice([1, 2, 3, 50])],
                      "pulse": rng.randrange(0, pn) if (pd == 1 and kn == 0 and rng.random() < 0.5) else None})
    # samples whose phase falls EXACTLY on a bin edge (period/tsamp = 2*nbins, nbins a power of two: the arithmetic is exact in
    # floating point too): the documented int(phase + 0.5) puts them in the upper bin
    for (N, C, nbins, nints, nbands) in [(64, 2, 2, 1, 1), (96, 1, 4, 2, 1), (80, 4, 4, 1, 2), (120, 2, 2, 3, 1)]:
        geoms.append({"N": N, "C": C, "nbins": nbins, "nints": nints, "nbands": nbands, "pn": 2 * nbins, "pd": 1, "kn": 0, "kd": 1, "dm": 0.0,
                      "gulps": [N + 5, 13, 50], "pulse": None})
    specs = [{"id": i, "seed": seed() * 29 + i, "geoms": geoms[i::14]} for i in range(14)]
    evs = [e for r in pool.pmap(job, specs, workers=14) for e in r]
    traces = [{"hdr": {}, "ev": evs[i:i + 8]} for i in range(0, len(evs), 8)]
    for e in evs:
        v.evaluations += 1
        if e["gulp"] < e["g"]["N"] or max(e["g"]["del"]) > 0 or e["g"]["kn"] != 0:
            v.nontrivial.add(json.dumps({"g": e["g"], "api": e["api"], "gulp": e["gulp"], "h": hash(tuple(e["vals"][:40]))}, sort_keys=True))
    site = {"fil": "Filterbank.fold", "tim": "TimeSeries.fold", "kernel": "kernels.fold"}
    for tr, pos in tracecheck.validate("Trace_Fold", traces, verdict=v, label="folds", chunk=12, timeout=3000):
        e = tr["ev"][abs(pos) - 1]
        cfg = dict(e["g"], api=e["api"], gulp=e["gulp"])
        v.violation("CellIsMeanOfItsSamples" if e["outcome"] == "ok" else "MustNotRaise", site[e["api"]], cfg,
                    {"outcome": e["outcome"], "cells": e["cells"][:6]}, "Fold!DefFold via Trace_Fold!EvOK")
    v.traces += len(evs)
    v.extra["pulse_train_geometries"] = sum(1 for g in geoms if g["pulse"] is not None)
    e = next(x for x in evs if x["api"] == "fil")
    v.sample({"g": e["g"], "api": e["api"], "gulp": e["gulp"], "cells": e["cells"][:4], "outcome": e["outcome"]})


def replay(v, path) -> None:
    print(open(path).read()[:1500])
    run(v)
