"""C15 - robust normalisation is finite, affine-equivariant and axis-consistent.

(M) MC_Robust: on the exact definitions (iqr, mad with its fallback, qn, sn, gapper, std, diffcov) over all
    lanes of 8 values in 0..2: scale(k*x + b) = k*scale(x) for integer k > 0 (up to floor rounding),
    scale(-x) = scale(x), a constant lane has scale 0, permutation invariance for the order statistics.
(T) Trace_Robust: estimate_scale for all 8 reducing methods x axis in {None, 0, 1} x 1-D/2-D integer arrays
    (ties, constants, zero-MAD lanes, heavy outliers) x affine maps (exact: +-2^k, integers; general: +-1/100,
    +-1/3, +-10/3): |a|-equivariance, equality with the 1-D estimator on every lane, broadcastable shapes,
    finiteness, and the value itself for the 7 defined methods; estimate_zscore for all 9 scale methods x
    3 location methods: sign(a)-equivariance where the scale estimate is non-zero, unit-scale fallback otherwise.
"""
from __future__ import annotations

import json
import math
import random

import numpy as np

from .. import pool, tlc, tracecheck
from ..common import seed

Q = 256
METHODS = ["std", "iqr", "mad", "diffcov", "biweight", "qn", "sn", "gapper"]
ZMETHODS = METHODS + ["doublemad"]
EXACT = [(2, 1, 3), (-2, 1, 0), (1, 2, -4), (4, 1, 100), (-1, 1, 7), (3, 1, 0), (100, 1, -50), (-1, 4, 1), (4, 1, 1048576), (1, 1, 500000),
         (1, 2 ** 20, 0), (-1, 2 ** 30, 0)]       # data of amplitude 1e-6 .. 1e-9: a small scale is not a zero scale
GENERAL = [(1, 100, 5), (-1, 100, 0), (1, 3, 2), (-10, 3, 1), (10, 3, -7)]


def _fx(x, q=Q):
    x = float(x)
    return int(round(x * q)) if math.isfinite(x) else 2_000_000_000


def lanes_of(X, axis):
    X = np.asarray(X)
    if axis is None or X.ndim == 1:
        return [X.ravel()]
    return [X[:, j] for j in range(X.shape[1])] if axis == 0 else [X[i, :] for i in range(X.shape[0])]


def job(spec):
    from sigpyproc.core import stats
    evs = []
    for c in spec["cases"]:
        fdt = np.float64 if c.get("f64") else np.float32       # float64 callers get their array looked at, not worked in
        X0 = np.array(c["X"], dtype=fdt)
        an, ad, b = c["map"]
        if c.get("loc") == "norm":
            b = 0            # with location 'norm' nothing is subtracted: z-scores are equivariant under pure scalings only
        a = an / ad
        X1 = (a * X0.astype(np.float64) + b).astype(np.float32).astype(fdt)
        # memory layout is not part of the value of an array: a transposed view (what FilReader.read_block returns) or a strided
        # window must give what the contiguous copy gives
        lay = c.get("layout", "C")
        if X0.ndim == 2 and lay == "T":
            X0, X1 = np.ascontiguousarray(X0.T).T, np.ascontiguousarray(X1.T).T
        elif X0.ndim == 2 and lay == "S":
            def _strided(A):
                buf = np.full((2 * A.shape[0], 3 * A.shape[1]), -777.0, dtype=np.float32)
                buf[::2, 1::3] = A
                return buf[::2, 1::3]
            X0, X1 = _strided(X0), _strided(X1)
        axis = c["axis"]
        L0 = [[int(v) for v in ln] for ln in lanes_of(np.array(c["X"]), axis)]
        exact = c["exact"]
        mag = float(np.max(np.abs(X1)))
        tol = 2 if exact else 2 + int(math.ceil(64 * 2.0 ** -23 * mag * Q))
        keep0, keep1 = X0.copy(), X1.copy()
        # maps that shrink the data by 2^20 or more: the fixed point of the trace (1/256) cannot carry scales of 1e-7, so the observed
        # scales are multiplied back by |ad/an| here and the event is judged as the unit map of the same sign
        renorm = float(ad) / abs(an) if ad >= 2 ** 20 else 1.0
        if renorm != 1.0:
            an, ad = (1 if an > 0 else -1), 1
        base = {"lanes": L0, "an": an, "ad": ad, "b": b, "method": c["method"], "axis": -1 if axis is None else axis, "q": Q,
                "tol": tol, "reldiv": 2000 if exact else 150, "cls": c["cls"], "exactmap": exact, "layout": lay, "map_true": list(c["map"])}
        if c["kind"] == "scale":
            e = dict(base, a="scale", s0=[], s1=[], l1=[], finite=True, shape_ok=True, valcheck=bool(max(len(x) for x in L0) <= 16))
            try:
                with np.errstate(all="ignore"):
                    r0 = np.atleast_1d(stats.estimate_scale(X0, c["method"], axis))
                    r1 = np.atleast_1d(stats.estimate_scale(X1, c["method"], axis))
                    rk = np.asarray(stats.estimate_scale(X1, c["method"], axis, keepdims=True))
                    l1 = [np.atleast_1d(stats.estimate_scale(np.ascontiguousarray(ln), c["method"], None))[0] for ln in lanes_of(X1, axis)]
                e["s0"], e["s1"], e["l1"] = [_fx(x) for x in r0.ravel()], [_fx(x * renorm) for x in r1.ravel()], [_fx(x * renorm) for x in l1]
                e["finite"] = bool(np.all(np.isfinite(r0)) and np.all(np.isfinite(r1)) and np.all(np.isfinite(l1)))
                try:
                    np.broadcast_shapes(rk.shape, X1.shape)
                    e["shape_ok"] = bool(rk.ndim == X1.ndim)
                except ValueError:
                    e["shape_ok"] = False
                e["outcome"] = "ok"
            except Exception as exc:  # noqa: BLE001
                e["outcome"] = f"raise:{type(exc).__name__}:{str(exc)[:60]}"
            e["intact"] = bool(np.array_equal(X0, keep0) and np.array_equal(X1, keep1))
            evs.append(e)
        else:
            e = dict(base, a="z", loc=c["loc"], z0=[], z1=[], scale0=[], loc0=[], finite=True, shape_ok=True)
            try:
                with np.errstate(all="ignore"):
                    zr0 = stats.estimate_zscore(X0, c["loc"], c["method"], axis)
                    zr1 = stats.estimate_zscore(X1, c["loc"], c["method"], axis)
                    raw = np.asarray(stats.estimate_scale(X0, c["method"], axis, keepdims=True)) if c["method"] != "norm" else np.ones(1)
                z0, z1 = np.asarray(zr0.data), np.asarray(zr1.data)
                e["finite"] = bool(np.all(np.isfinite(z0)) and np.all(np.isfinite(z1)))
                e["shape_ok"] = bool(z0.shape == X0.shape and z1.shape == X1.shape)
                e["z0"] = [[_fx(v) for v in ln] for ln in lanes_of(z0, axis)]
                e["z1"] = [[_fx(v) for v in ln] for ln in lanes_of(z1, axis)]
                rawb = np.broadcast_to(raw, X0.shape) if raw.shape != X0.shape else raw
                e["scale0"] = [_fx(np.min(np.abs(ln)), 65536) for ln in lanes_of(rawb, axis)]
                # float32 holds a*x+b and the location to 2^-24 relative: with a large baseline that is the dominant error
                nz = [float(np.min(np.abs(ln))) for ln in lanes_of(rawb, axis) if float(np.min(np.abs(ln))) > 0]
                if nz:
                    e["tol"] = e["tol"] + int(math.ceil(2.0 ** -22 * mag * Q / (abs(a) * min(nz))))
                locb = np.broadcast_to(np.asarray(zr0.loc), X0.shape)
                e["loc0"] = [_fx(ln[0]) for ln in lanes_of(locb, axis)]
                e["outcome"] = "ok"
            except Exception as exc:  # noqa: BLE001
                e["outcome"] = f"raise:{type(exc).__name__}:{str(exc)[:60]}"
            e["intact"] = bool(np.array_equal(X0, keep0) and np.array_equal(X1, keep1))
            evs.append(e)
    return evs


def run(v) -> None:
    rng = random.Random(seed())
    quick = v.tier == "quick"
    v.rule = "events distinct by (kind, method, loc, axis, data, affine map); non-trivial = all (every event carries an affine map)"
    v.assumptions += ["integer base data lifted to float32; exact maps (a = +-2^k or integer, integer b): tolerance 2/256 + 0.05%; "
                      "general maps (+-1/100, +-1/3, +-10/3): 64*2^-23*max|a x + b| + 0.7%",
                      "z-score equivariance only where the scale estimate is non-zero (otherwise the unit-scale fallback is checked)",
                      "biweight: relations only (its value is not defined in the specification)"]
    v.add_tlc(tlc.must_pass(tlc.run("MC_Robust", "MC_Robust.cfg", workers=12, timeout=3000), "MC_Robust"), "MC_Robust")

    def data(cls, shape):
        n = int(np.prod(shape))
        if cls == "ties":
            a = [rng.randrange(0, 10) for _ in range(n)]
        elif cls == "const":
            a = [4] * n
        elif cls == "zeromad":
            a = [5] * n
            for _ in range(max(1, n // 5)):
                a[rng.randrange(n)] = rng.choice([6, 3])
        elif cls == "outlier":
            a = [rng.randrange(0, 10) for _ in range(n)]
            a[rng.randrange(n)] = 100
        elif cls == "firstlane":        # degenerate (constant / exactly linear) FIRST lane on either axis, ordinary lanes elsewhere
            A = np.array([rng.randrange(0, 10) for _ in range(n)]).reshape(shape)
            if A.ndim == 2:
                A[0, :] = 4
                A[:, 0] = np.arange(A.shape[0]) + 4 if rng.random() < 0.5 else 4
            return A.tolist()
        else:
            a = [rng.randrange(0, 4) for _ in range(n)]
        return np.array(a).reshape(shape).tolist()
    cases = []
    shapes = [(9,), (16,), (8, 9), (9, 11), (12, 8)]     # lanes of 8..16 (None axis on 2-D: up to 99 values: only relations + small classes)
    for it in range(35 if quick else 500):
        shape = rng.choice(shapes)
        cls = rng.choice(["ties", "ties", "const", "zeromad", "outlier", "small", "firstlane"])
        if it % 7 == 3:       # long lanes (50-100 values) of constant / tie-dominated data: one-pass formulas round below zero there
            shape, cls = rng.choice([(100,), (50, 8), (8, 64)]), rng.choice(["const", "zeromad"])      # every lane at least 8 long (diffcov of 3 values is degenerate)
        X = data(cls, shape)
        axes = [None] if len(shape) == 1 else [None, 0, 1]
        layout = rng.choice(["C", "T", "S"]) if len(shape) == 2 else "C"
        for axis in axes:
            for m in METHODS:
                # diffcov is a square root of a DIFFERENCE of sums: ill-conditioned when the lag covariance nearly cancels,
                # so input rounding of a non-exact map is amplified without bound -> exact maps only for it
                ex = rng.random() < 0.7 or m == "diffcov"
                mp = rng.choice(EXACT if ex else GENERAL)
                cases.append({"kind": "scale", "X": X, "axis": axis, "method": m, "map": mp, "exact": ex, "cls": cls, "layout": layout, "f64": len(cases) % 3 == 0})
            if it % 7 == 3:      # the plain standardisation (mean / std) of long constant or tie-dominated lanes at levels that are not binary fractions
                for mp in ((1, 100, 5), (10, 3, -7), (1, 3, 2)):
                    cases.append({"kind": "z", "X": X, "axis": axis, "method": "std", "loc": "mean", "map": mp, "exact": False, "cls": cls,
                                  "layout": layout, "f64": len(cases) % 3 == 0})
            for m in rng.sample(ZMETHODS, 4):
                ex = rng.random() < 0.7 or m == "diffcov"
                cases.append({"kind": "z", "X": X, "axis": axis if axis is not None else None, "method": m,
                              "loc": rng.choice(["median", "mean", "norm"]), "map": rng.choice(EXACT if ex else GENERAL), "exact": ex, "cls": cls, "layout": layout, "f64": len(cases) % 3 == 0})
    specs = [{"id": i, "cases": cases[i::14]} for i in range(14)]
    evs = [e for r in pool.pmap(job, specs, workers=14) for e in r]
    sk = ("a", "lanes", "an", "ad", "b", "method", "q", "tol", "reldiv", "s0", "s1", "l1", "finite", "shape_ok", "valcheck", "outcome", "intact")
    zk = ("a", "lanes", "an", "ad", "b", "method", "q", "tol", "reldiv", "z0", "z1", "scale0", "loc0", "finite", "shape_ok", "outcome", "intact")
    traces = [{"hdr": {}, "ev": [{k: e[k] for k in (sk if e["a"] == "scale" else zk)} for e in evs[i:i + 25]], "full": evs[i:i + 25]}
              for i in range(0, len(evs), 25)]
    for e in evs:
        v.evaluations += 1
        v.nontrivial.add(json.dumps({k: e[k] for k in ("a", "lanes", "an", "ad", "b", "method", "axis")} | {"loc": e.get("loc", "")}))
    for tr, pos in tracecheck.validate("Trace_Robust", traces, verdict=v, label="robust estimator events", chunk=12, timeout=3000):
        e = tr["full"][abs(pos) - 1]
        cfg = {"method": e["method"], "axis": e["axis"], "map": e.get("map_true", [e["an"], e["ad"], e["b"]]), "cls": e["cls"], "exactmap": e["exactmap"], "layout": e.get("layout", "C"),
               "nlanes": len(e["lanes"]), "lane0": e["lanes"][0], "loc": e.get("loc", ""), "lanes": e["lanes"]}
        if e["a"] == "scale":
            cfg["negative_a"] = e["an"] < 0
            v.violation("ScaleEquivariantLaneConsistent" if e["outcome"] == "ok" else "MustNotRaise", "stats.estimate_scale", cfg,
                        {"outcome": e["outcome"], "s0": e["s0"][:6], "s1": e["s1"][:6], "l1": e["l1"][:6], "finite": e["finite"],
                         "shape_ok": e["shape_ok"]}, "Trace_Robust!ScaleOK")
        else:
            cfg["negative_a"] = e["an"] < 0
            v.violation("ZScoreEquivariantFinite" if e["outcome"] == "ok" else "MustNotRaise", "stats.estimate_zscore", cfg,
                        {"outcome": e["outcome"], "z0": e["z0"], "z1": e["z1"], "scale0": e["scale0"], "loc0": e["loc0"], "tol": e["tol"],
                         "finite": e["finite"]}, "Trace_Robust!ZOK")
    v.traces += len(evs)
    e = next(x for x in evs if x["a"] == "scale" and x["method"] == "mad")
    v.sample({k: e[k] for k in ("method", "axis", "an", "ad", "b", "s0", "s1", "l1", "outcome")} | {"lane0": e["lanes"][0]})


def replay(v, path) -> None:
    print(open(path).read()[:1500])
    run(v)
