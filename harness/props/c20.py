"""C20 - a partially written output is always a valid prefix of the final file.

(M) WriterPipe: AppendOnly (action property), HeaderFirst, PrefixOfFinal, RecoverK (the reader's view of
    EVERY truncation of EVERY reachable disk state is the first k complete samples of the final result),
    CompleteOnReturn, with Crash enabled in every state; three wrong writer designs refuted.
(R) Gen_Sigpyproc: TLC generates complete behaviours of the top-level composition Sigpyproc.tla (input split, call,
    every step, Return or Crash at any step); each is replayed into the real transform with the crash injected at the
    named write, and the bytes on disk after every step are compared with the model's output file.
(T) Trace_Writer: FileWriter.write/cwrite are wrapped at class level; after every write the bytes on disk
    are recorded and a copy is re-opened with the library's own FilReader; the final file is additionally
    truncated at every byte length and re-opened.  TLC accepts a file's history only as a behaviour of the
    writer machine (complete header first, append-only, prefix of final, complete at return, RecoverK).
"""
from __future__ import annotations

import json
import random

from .. import behaviours, compose_replay, pool, tlc, tracecheck, transforms
from ..common import MachineryFailure, seed
from . import c07

OPS = ["invert", "mask", "extract_samps", "extract_chans", "extract_bands", "downsample", "subband", "zerodm",
       "requantize", "block_to_file", "to_tim"]
SITES = dict(c07.SITES, requantize="Filterbank.requantize", block_to_file="FilterbankBlock.to_file",
             to_tim="TimeSeries.to_tim")


def variants(op, n, c, nbits, rng, quick):
    if op == "requantize":
        return [{"nbits_out": nbits}]
    if op in ("block_to_file", "to_tim"):
        return [{}]
    return c07.op_variants(op, n, c, nbits, rng, quick)


def run(v) -> None:
    rng = random.Random(seed())
    quick = v.tier == "quick"
    v.rule = ("one trace per output file per call; distinct by (file, op, parameters, gulp, range); non-trivial = at "
              "least two data writes (a crash point between two appends exists)")
    v.assumptions += ["write points are the returns of FileWriter.write/cwrite (unbuffered io.FileIO: what was written is "
                      "on disk); a crash is modelled as the file image at that point",
                      "truncations: every byte length for data sections <= 48 bytes, 16 sampled lengths otherwise"]
    v.add_tlc(tlc.must_pass(tlc.run("WriterPipe", "MC_WriterPipe_good.cfg" if quick else "MC_WriterPipe_good.cfg",
                                    workers=12), "MC_WriterPipe_good"), "MC_WriterPipe_good")
    # the top-level composition: input set -> plan -> multi-file read -> unpack -> kernel -> pack -> append, at the byte level
    for cfg in (["MC_Sigpyproc_b8.cfg"] if quick else ["MC_Sigpyproc_b8.cfg", "MC_Sigpyproc_b2.cfg"]):
        v.add_tlc(tlc.must_pass(tlc.run("Sigpyproc", cfg, workers=12, timeout=3000), cfg), cfg)
    tlc.must_fail(tlc.run("Sigpyproc", "MC_Sigpyproc_fullbuf.cfg", workers=8), "composition with full-buffer reads", "NeverShort")
    for bad in ("patchhdr", "buffered"):
        tlc.must_fail(tlc.run("WriterPipe", f"MC_WriterPipe_{bad}.cfg", workers=8), f"WriterPipe variant {bad}")
    tlc.must_fail(tlc.run("WriterPipe", "MC_WriterPipe_witness.cfg", workers=8), "witness crash mid-stream", "WitnessCrashMid")

    # reuse the C07 spec builder with our op list (monkey-patch the variant function for the extra ops)
    orig = c07.op_variants
    specs = []
    sid = 0
    small = [(7, 8, 4), (6, 2, 4), (8, 1, 8), (6, 32, 2)] if quick else \
        [(7, 8, 4), (6, 2, 4), (8, 1, 8), (6, 32, 2), (9, 4, 4), (10, 8, 2), (8, 32, 4), (12, 2, 8)]
    for n, nbits, c in small:
        ranges = [(s, m) for s in range(0, n) for m in range(1, n - s + 1)]
        rng.shuffle(ranges)
        ranges = [(0, n)] + ranges[: (3 if quick else 10)]
        gulps = [1, 2, 3, n + 1] if quick else [1, 2, 3, 4, 5, n, n + 1]
        calls = []
        for op in OPS:
            for (start, nsamps) in ranges:
                for gulp in gulps:
                    vs = variants(op, n, c, nbits, rng, True)
                    if vs:
                        calls.append(dict(op=op, gulp=gulp, start=start, nsamps=nsamps, **rng.choice(vs)))
        rng.shuffle(calls)
        calls = calls[: (90 if quick else 500)]
        # always present (not drawn): whole-file calls whose LAST write is shorter than the ones before it (gulps n-2 and n-1)
        for op in ("extract_samps", "invert", "mask"):
            for gulp in (max(2, n - 2), n - 1):
                vs = variants(op, n, c, nbits, rng, True)
                calls.insert(0, dict(op=op, gulp=gulp, start=0, nsamps=n, **vs[0]))
        for j in range(0, len(calls), 15):
            sid += 1
            k = 1 + (j // 15) % 2
            cuts = sorted(rng.sample(range(1, n), k - 1)) if k > 1 else []
            split = [b - a for a, b in zip([0, *cuts], [*cuts, n])]
            specs.append({"id": sid, "seed": seed() * 31 + sid, "N": n, "C": c, "nbits": nbits, "split": split,
                          "data": "mid", "calls": calls[j:j + 15], "keep_snapshots": True})
    del orig
    results = pool.pmap(transforms.job, specs, workers=14)
    traces = []
    for r in results:
        for rec in r["recs"]:
            if rec["op"] == "subband" and (max(rec["del"]) >= rec["nsamps"] or min(rec["del"]) < 0):
                continue
            if rec["outcome"] != "ok":
                # a raising call is C07's business unless it leaves a malformed file behind; still judge what is on disk
                pass
            for m in rec.get("c20", []):
                cfg = dict(r["spec"])
                cfg.update({"op": rec["op"], "gulp": rec["gulp"], "start": rec["start"], "nsamps": rec["nsamps"],
                            "file": m["file"], "outcome": rec["outcome"]})
                cfg.update(rec["params"])
                if not m.get("parse_ok"):
                    v.violation("WellFormedHeader", SITES[rec["op"]], cfg, "output file header does not parse", "complete header")
                    continue
                hdr = {k: m[k] for k in ("hdrlen", "nbits", "nchans", "final_data", "final_vals", "final_isint")}
                C_in = r["hdr"]["nchans"]
                known = rec["op"] == "extract_samps" and rec["outcome"] == "ok"
                hdr["expect_known"] = bool(known)
                hdr["expect"] = r["hdr"]["vals"][rec["start"] * C_in:(rec["start"] + rec["nsamps"]) * C_in] if known else []
                ev = [dict(e, a="w", cut=0, size_at_return=0) for e in m["events"]]
                if rec["outcome"] == "ok":
                    ev.append({"a": "ret", "kind": "", "size": 0, "hdr_same": True, "data": [], "ro_ok": True, "ro_ns": 0,
                               "ro_vals": [], "cut": 0, "size_at_return": m["size_at_return"]})
                for t in m["truncs"]:
                    ev.append({"a": "cut", "kind": "", "size": 0, "hdr_same": True, "data": [], "ro_ok": t["ro_ok"],
                               "ro_ns": t["ro_ns"], "ro_vals": t["ro_vals"], "cut": t["cut"], "size_at_return": 0})
                traces.append({"hdr": hdr, "ev": ev, "cfg": cfg, "nw": sum(1 for e in m["events"] if e["kind"] == "cwrite")})
    for t in traces:
        v.evaluations += 1
        if t["nw"] >= 2:
            v.nontrivial.add(json.dumps(t["cfg"], sort_keys=True, default=str))

    def on_reject(tr, pos):
        e = tr["ev"][pos - 1]
        clause = {"w": "AppendOnlyPrefixRecover", "ret": "CompleteOnReturn", "cut": "RecoverFromTruncation"}[e["a"]]
        if e["a"] == "w" and pos == 1:
            clause = "HeaderFirst"
        obs = {k: (e[k][:16] if isinstance(e[k], list) else e[k]) for k in e}
        cfg = dict(tr["cfg"])
        cfg["event_index"] = pos
        cfg["declared_nbits"] = tr["hdr"]["nbits"]
        v.violation(clause, SITES[tr["cfg"]["op"]], cfg, obs, "a step of the writer machine (Trace_Writer)")
        rest = dict(tr)
        # re-synchronise: the data on disk is what was logged
        rest["ev"] = tr["ev"][pos:]
        return None if e["a"] == "w" else rest

    # (R) spec -> code: complete behaviours of the top-level composition generated by TLC (every input split, call, and
    # crash point at the bound; larger ones by -simulate), replayed into the real transforms with the crash injected
    cfgl = lambda maxn, nb, c: ["INIT GInit", "NEXT GNext", "CONSTANTS", f"  MaxN = {maxn}", f"  NBits = {nb}", f"  C = {c}",   # noqa: E731
                                "  HLen = 3", '  Variant = "fixed"', "INVARIANT Emit", "CHECK_DEADLOCK FALSE"]
    behs = []
    gens = [(2, 8, 2, None)] if quick else [(3, 8, 2, None), (2, 2, 4, None), (2, 4, 2, None), (2, 1, 8, None)]
    sims = [(5, 8, 2, 150), (4, 2, 4, 100)] if quick else [(5, 8, 2, 3000), (4, 2, 4, 1500), (4, 4, 2, 1500), (3, 1, 8, 800)]
    for maxn, nb, c, num in gens + sims:
        behs += behaviours.generate("Gen_Sigpyproc", {}, cfgl(maxn, nb, c), simulate=(f"num={num}" if num else None),
                                    depth=(maxn + 4 if num else None), verdict=v, label=f"MaxN={maxn} nbits={nb} C={c}", timeout=3000)
    for i, b in enumerate(behs):
        b["i"] = i
    nj = 28
    rres = pool.pmap(compose_replay.job, [{"id": j, "behs": behs[j::nj]} for j in range(nj)], workers=14)
    rrecs = {r["i"]: r for rr in rres for r in rr}
    SITE_OF = {"extract": SITES["extract_samps"], "invert": SITES["invert"], "mask": SITES["mask"]}
    agreed = sum(1 for b in behs if compose_replay.judge(v, b, rrecs[b["i"]], SITE_OF[b["op"]]))
    v.traces += len(behs)
    v.evaluations += len(behs)
    v.extra["tlc_generated_composition_behaviours_replayed"] = len(behs)
    v.extra["composition_behaviours_crashed_midway"] = sum(1 for b in behs if b["pc"] == "crashed" and 0 < len(b["hist"]) - 1)
    v.extra["composition_behaviours_agreed"] = agreed
    v.extra["composition_behaviours_same_write_grain_as_model"] = sum(1 for b in behs if compose_replay.same_grain(b, rrecs[b["i"]]))
    if not behs or not any(b["pc"] == "crashed" and len(b["hist"]) >= 3 for b in behs) or not any(len(b["fs"]) >= 2 for b in behs):
        raise MachineryFailure("the generated composition behaviours do not contain a multi-file input and a mid-stream crash")

    tracecheck.validate_total("Trace_Writer", traces, on_reject, verdict=v, label="writer histories", chunk=150)
    v.traces += len(traces)
    v.extra["write_events"] = sum(sum(1 for e in t["ev"] if e["a"] == "w") for t in traces)
    v.extra["truncations_reopened"] = sum(sum(1 for e in t["ev"] if e["a"] == "cut") for t in traces)
    multi = [t for t in traces if t["nw"] >= 2]
    for t in (multi[:1] + traces[:1]):
        v.sample({"cfg": t["cfg"], "events": [{k: (e[k][:8] if isinstance(e[k], list) else e[k]) for k in e} for e in t["ev"][:5]]})


def replay(v, path) -> None:
    data = json.loads(open(path).read())
    for case in data["cases"][:2]:
        c = case["cfg"]
        call = {k: c[k] for k in c if k in ("op", "gulp", "start", "nsamps", "mask", "value", "chans", "chanstart", "nchans",
                                            "chanpersub", "tf", "ff", "dm", "nsub", "nbits_out")}
        spec = {"id": 0, "seed": seed(), "N": c["N"], "C": c["C"], "nbits": c["nbits"], "split": c["split"],
                "data": c["data"], "calls": [call], "keep_snapshots": True}
        r = transforms.job(spec)
        for m in r["recs"][0].get("c20", []):
            print("replayed:", m["file"], [(e["kind"], e["size"], e["ro_ns"]) for e in m.get("events", [])])
    run(v)
