"""C12 - FFT-based operations equal their direct time-domain definitions.

(M) MC_Conv: LinConv commutes, Correlate(x, y) = LinConv(x, reverse(y)), length and sum laws, on all small
    integer sequences; GoodSize against brute force to 96; the in-spec fixed-point twiddle table is on the
    unit circle within 2^-12, exact on the axes, right at 45 and 60 degrees, conjugate-symmetric.
(T) Trace_Conv: TimeSeries.rfft (transform length, bin count, DC/Nyquist/quarter bins exactly, every bin
    against the fixed-point DFT, Parseval), rfft().ifft() = zero-padded input, kernels.fftconvolve = full
    linear convolution, TimeSeries.correlate = full correlation with its lag origin and length,
    form_mspec = modulus of the code's own bins - for EVERY length 1..40 (64 thorough), primes included,
    constants, impulses, random and large-dynamic-range data.
"""
from __future__ import annotations

import json
import random

import numpy as np

from .. import fixtures, pool, tlc, tracecheck
from ..common import inputs_intact, seed, watched_inputs

QS = 16      # spectra (values up to sum|x| ~ 2000)
QT = 64      # time-domain results


def _q(a, q):
    out = []
    for x in np.asarray(a, dtype=np.float64).ravel():
        out.append(int(round(x * q)) if np.isfinite(x) else 2_000_000_000)
    return out


def job(spec):
    from sigpyproc.core import kernels
    from sigpyproc.readers import FilReader
    from sigpyproc.timeseries import TimeSeries
    d = pool.worker_scratch()
    p = d / f"c12_{spec['id']}.fil"
    fixtures.write_fil(p, np.zeros(8, dtype=np.int64), 4, 8, tsamp=0.001)
    hdr = FilReader(str(p)).header
    evs = []

    def ev(base, fn):
        e = dict({"f": "", "x": [], "y": [0], "q": QT, "m": 0, "nbins": 0, "re": [], "im": [], "parsq": 0, "outq": [], "nhdr": 0}, **base)
        w = watched_inputs(fn)
        try:
            e.update(fn())
            e["outcome"] = "ok" if inputs_intact(w) else "raise:InputModified:the call changed an array it was given"
        except Exception as exc:  # noqa: BLE001
            e["outcome"] = f"raise:{type(exc).__name__}:{str(exc)[:70]}"
        evs.append(e)

    for c in spec["cases"]:
        x = np.array(c["x"], dtype=np.float32)
        n = len(x)
        ts = TimeSeries(x, hdr.new_header({"nchans": 1, "nsamples": n}))
        if c["kind"] == "spec":
            def rf():
                fs = ts.rfft()
                z = np.asarray(fs.data).astype(np.complex128)
                m = int(fs.header.nsamples)
                w = np.ones(len(z)) * 2.0
                w[0] = 1.0
                if m % 2 == 0:
                    w[-1] = 1.0
                pars = float(np.sum(w * np.abs(z) ** 2))
                return {"m": m, "nbins": len(z), "re": _q(z.real, QS), "im": _q(z.imag, QS), "parsq": int(round(pars * QS)), "q": QS}
            ev({"f": "rfft", "x": c["x"]}, rf)
            if c.get("user_fft"):          # the documented hook for a caller-supplied FFT implementation

                def rf2():
                    fs = ts.rfft(fftn=np.fft.rfft)
                    z = np.asarray(fs.data).astype(np.complex128)
                    m = int(fs.header.nsamples)
                    w = np.ones(len(z)) * 2.0
                    w[0] = 1.0
                    if m % 2 == 0:
                        w[-1] = 1.0
                    return {"m": m, "nbins": len(z), "re": _q(z.real, QS), "im": _q(z.imag, QS),
                            "parsq": int(round(float(np.sum(w * np.abs(z) ** 2)) * QS)), "q": QS}
                ev({"f": "rfft", "x": c["x"], "arg": "fftn=numpy.fft.rfft"}, rf2)

                def rt2():
                    back = ts.rfft(fftn=np.fft.rfft).ifft(ifftn=np.fft.irfft)
                    return {"outq": _q(back.data, QT), "nhdr": int(back.header.nsamples)}
                ev({"f": "roundtrip", "x": c["x"], "arg": "numpy.fft"}, rt2)

            def rt():
                back = ts.rfft().ifft()
                return {"outq": _q(back.data, QT), "nhdr": int(back.header.nsamples)}
            ev({"f": "roundtrip", "x": c["x"]}, rt)

            def ms():
                fs = ts.rfft()
                z = np.asarray(fs.data)
                amp = kernels.form_mspec(z.astype(np.complex64))
                return {"re": _q(z.real, QS), "im": _q(z.imag, QS), "outq": _q(amp, QS), "q": QS}
            ev({"f": "mspec", "x": c["x"]}, ms)
        else:
            y = np.array(c["y"], dtype=np.float32)
            ev({"f": "conv", "x": c["x"], "y": c["y"]}, lambda: {"outq": _q(kernels.fftconvolve(x, y), QT)})

            def co():
                r = ts.correlate(y)
                return {"outq": _q(r.data, QT), "nhdr": int(r.header.nsamples)}
            ev({"f": "correlate", "x": c["x"], "y": c["y"]}, co)
            ts2 = TimeSeries(y, hdr.new_header({"nchans": 1, "nsamples": len(y)}))

            def co2():
                r = ts.correlate(ts2)
                return {"outq": _q(r.data, QT), "nhdr": int(r.header.nsamples)}
            ev({"f": "correlate", "x": c["x"], "y": c["y"], "arg": "TimeSeries"}, co2)
    return evs


def run(v) -> None:
    rng = random.Random(seed())
    quick = v.tier == "quick"
    v.rule = "calls distinct by (operation, input sequences); non-trivial = length >= 2"
    v.assumptions += ["integer-valued float32 inputs; spectra |x| <= 50 (fixed point q=16 within 32-bit squares), time-domain q=64",
                      "fixed-point DFT tolerance 2^-11 * sum|x|; exact clauses (DC, Nyquist, quarter bins, Parseval, round trip, "
                      "convolution, correlation) within float32 FFT error 2^-12 relative + 2 quantisation units"]
    v.add_tlc(tlc.must_pass(tlc.run("MC_Conv", "MC_Conv_conv.cfg", workers=4), "MC_Conv conv"), "MC_Conv_conv")
    v.add_tlc(tlc.must_pass(tlc.run("MC_Conv", "MC_Conv_trig.cfg", workers=4), "MC_Conv trig"), "MC_Conv_trig")
    cases = []
    maxn = 40 if quick else 96

    def seq(n, cls, amp):
        if cls == "const":
            return [amp // 2] * n
        if cls == "impulse":
            s = [0] * n
            s[rng.randrange(n)] = amp
            return s
        if cls == "ramp":
            return [(i * 7) % amp - amp // 3 for i in range(n)]
        if cls == "dyn":
            return [rng.choice([-1, 1]) * (1024 if rng.random() < 0.2 else 1) for _ in range(n)]
        return [rng.randrange(-amp, amp + 1) for _ in range(n)]
    for n in range(1, maxn + 1):
        for cls in (["rand", "impulse", "const"] if quick else ["rand", "impulse", "const", "ramp", "rand"]):
            cases.append({"kind": "spec", "x": seq(n, cls, 50), "user_fft": cls == "rand"})
        ks = sorted({1, 2, n, max(1, n // 2), rng.randrange(1, n + 1)}) if quick else list(range(1, n + 1))
        if not quick and n > 24:
            ks = sorted(set(rng.sample(ks, 8)) | {1, n})
        for k in ks:
            cls = rng.choice(["rand", "impulse", "const", "dyn"])
            cases.append({"kind": "conv", "x": seq(n, cls, 30), "y": seq(k, rng.choice(["rand", "impulse", "dyn"]), 30)})
    specs = [{"id": i, "cases": cases[i::14]} for i in range(14)]
    # histories in ONE process: DEScending lengths that share a transform (good) size - what a longer call leaves in a reused
    # workspace must not leak into a shorter one; and ascending again
    for si, lens in enumerate([[40, 39, 38, 37, 36, 35, 36, 40], [25, 24, 23, 22, 21, 20, 19, 18], [16, 15, 14, 13, 12, 11, 10, 9, 16]] if quick else
                              [[100, 99, 98, 97, 96, 95, 94, 100], [64, 63, 62, 61, 60, 59, 58, 57, 64], [40, 39, 38, 37, 36, 35, 36, 40],
                               [25, 24, 23, 22, 21, 20, 19, 18], [16, 15, 14, 13, 12, 11, 10, 9, 16], [81, 80, 79, 78, 77, 76, 75]]):
        for n in lens:
            specs[si]["cases"].append({"kind": "spec", "x": seq(n, "rand", 50), "user_fft": False})
            specs[si]["cases"].append({"kind": "conv", "x": seq(n, "rand", 30), "y": seq(max(1, n // 3), "rand", 30)})
    evs = [e for r in pool.pmap(job, specs, workers=14) for e in r]
    traces = [{"hdr": {}, "ev": [{k: e[k] for k in ("f", "x", "y", "q", "m", "nbins", "re", "im", "parsq", "outq", "nhdr", "outcome")}
                                 for e in evs[i:i + 20]], "full": evs[i:i + 20]} for i in range(0, len(evs), 20)]
    for e in evs:
        v.evaluations += 1
        if len(e["x"]) >= 2:
            v.nontrivial.add(json.dumps({"f": e["f"], "x": e["x"], "y": e["y"], "arg": e.get("arg", "")}))
    site = {"rfft": "TimeSeries.rfft", "roundtrip": "TimeSeries.rfft().ifft()", "conv": "kernels.fftconvolve",
            "correlate": "TimeSeries.correlate", "mspec": "kernels.form_mspec"}
    for tr, pos in tracecheck.validate("Trace_Conv", traces, verdict=v, label="FFT operations", chunk=15, timeout=3000):
        e = tr["full"][abs(pos) - 1]
        n = len(e["x"])
        cfg = {"f": e["f"], "n": n, "x": e["x"], "y": e["y"]}
        v.violation("EqualsTimeDomainDefinition" if e["outcome"] == "ok" else "MustNotRaise", site[e["f"]], cfg,
                    {"outcome": e["outcome"], "m": e["m"], "nhdr": e["nhdr"], "outq": e["outq"][:10], "re": e["re"][:6]},
                    "Conv (Trace_Conv!EvOK)")
    v.traces += len(evs)
    for f in ("rfft", "conv"):
        e = next(x for x in evs if x["f"] == f and len(x["x"]) >= 5)
        v.sample({k: e[k] for k in ("f", "x", "y", "m", "nbins", "re", "im", "outq", "outcome")})


def replay(v, path) -> None:
    print(open(path).read()[:1500])
    run(v)
