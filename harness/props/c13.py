"""C13 - matched-filter S/N is the normalised template correlation and its argmax.

(M) MC_MatchedFilter: on the definition, a noiseless boxcar of any width in the bank at any start bin
    (edges included) has its unique maximum response at (its width, its start); responses are unchanged by
    an offset of the data and scale linearly; the bank recurrence is increasing and bounded.
(T) Trace_MatchedFilter: MatchedFilter on integer data of every length 8..48 (FFT-good or not) with
    loc = scale = "norm", boxcar banks (several sizes/spacings), gaussian and lorentzian banks (templates read
    from the public bank, quantised to 1/64), and kernels.convolve_templates with arbitrary integer
    templates and reference bins: every response, the bank, S/N = max at the reported location, on-pulse
    window; plus pairs of runs on z and a*z+b with the default median/IQR standardisation.
"""
from __future__ import annotations

import json
import random

import numpy as np

from .. import pool, tlc, tracecheck
from ..common import seed

Q = 16


def _q(a, q=Q):
    return [[int(round(float(x) * q)) if np.isfinite(x) else 2_000_000_000 for x in row] for row in np.atleast_2d(a)]


def job(spec):
    from numba import typed
    from sigpyproc.core import kernels
    from sigpyproc.core.filters import MatchedFilter
    evs = []
    for c in spec["cases"]:
        z = np.array(c["z"], dtype=np.float32)
        base = {"a": "mf", "z": c["z"], "kind": c["kind"], "q": Q, "tol": 2, "reldiv": 400, "mx": c.get("mx", 1), "fn": c.get("fn", 3),
                "fd": c.get("fd", 2), "widths": [], "bank": [], "convq": [], "snrq": 0, "itemp": 1, "peak": 0, "on": [0, 0],
                "api": c["api"]}
        try:
            if c["api"] == "MatchedFilter":
                if c.get("std") == "default":
                    # the default standardisation (median / IQR) on a noiseless pulse: more than half of the samples tie, the IQR is 0,
                    # the documented unit-scale fallback applies and the standardised data are z - median (integers again)
                    mf = MatchedFilter(z, temp_kind=c["kind"], nbins_max=c["mx"], spacing_factor=c["fn"] / c["fd"])
                    base["z"] = [int(v) - int(np.median(z)) for v in c["z"]]
                else:
                    mf = MatchedFilter(z, loc_method="norm", scale_method="norm", temp_kind=c["kind"], nbins_max=c["mx"],
                                       spacing_factor=c["fn"] / c["fd"])
                hs = 1 if c["kind"] == "boxcar" else 64
                bank = [{"h": [int(round(float(x) * hs)) for x in t.data], "ref": int(t.ref_bin)} for t in mf.temp_bank]
                base.update({"widths": [int(w) for w in mf.temp_widths] if c["kind"] == "boxcar" else [],
                             "bank": bank, "convq": _q(mf.convs), "snrq": int(round(float(mf.snr) * Q)),
                             "itemp": int(mf._itemp) + 1, "peak": int(mf.peak_bin), "on": [int(x) for x in mf.on_pulse]})
                if c["kind"] != "boxcar":
                    base["reldiv"] = 25        # templates quantised to 1/64: ~2% on the response
                    base["tol"] = 3
            else:
                temps = [np.array(h, dtype=np.float32) for h in c["temps"]]
                convs = kernels.convolve_templates(z, typed.List(temps), typed.List(c["refs"]))
                it, pk = np.unravel_index(convs.argmax(), convs.shape)
                base.update({"bank": [{"h": h, "ref": r} for h, r in zip(c["temps"], c["refs"])], "convq": _q(convs),
                             "snrq": int(round(float(convs[it, pk]) * Q)), "itemp": int(it) + 1, "peak": int(pk)})
            base["outcome"] = "ok"
        except Exception as exc:  # noqa: BLE001
            base["outcome"] = f"raise:{type(exc).__name__}:{str(exc)[:70]}"
        evs.append(base)
        if c.get("inv"):
            a, b = c["inv"]
            e = {"a": "inv", "z": c["z"], "scale": a, "offset": b, "tol": 2, "c1": [], "c2": [], "snr1": 0, "snr2": 0, "peak1": 0,
                 "peak2": 0, "itemp1": 0, "itemp2": 0, "unique": False, "kind": c["kind"]}
            try:
                sm = c.get("inv_scale", "iqr")
                m1 = MatchedFilter(z, temp_kind=c["kind"], nbins_max=c["mx"], spacing_factor=c["fn"] / c["fd"], scale_method=sm)
                m2 = MatchedFilter((a * z.astype(np.float64) + b).astype(np.float32), temp_kind=c["kind"], nbins_max=c["mx"],
                                   spacing_factor=c["fn"] / c["fd"], scale_method=sm)
                c1 = np.asarray(m1.convs, dtype=np.float64)
                srt = np.sort(c1.ravel())
                e.update({"c1": _q(m1.convs), "c2": _q(m2.convs), "snr1": int(round(float(m1.snr) * Q)), "snr2": int(round(float(m2.snr) * Q)),
                          "peak1": int(m1.peak_bin), "peak2": int(m2.peak_bin), "itemp1": int(m1._itemp), "itemp2": int(m2._itemp),
                          "unique": bool(len(srt) < 2 or srt[-1] - srt[-2] > 1e-3 * max(1.0, abs(srt[-1])))})
                e["outcome"] = "ok"
            except Exception as exc:  # noqa: BLE001
                e["outcome"] = f"raise:{type(exc).__name__}:{str(exc)[:70]}"
            evs.append(e)
    return evs


def run(v) -> None:
    rng = random.Random(seed())
    quick = v.tier == "quick"
    v.rule = "runs distinct by (api, template kind, bank parameters, data); non-trivial = every run (lengths 8..48)"
    v.assumptions += ["data standardised with loc = scale = 'norm' so that the standardised data are the integers themselves",
                      "responses compared in fixed point q=16 with sqrt taken by integer bisection (tolerance 2 units + 0.25%)",
                      "gaussian/lorentzian templates are read from the public bank and quantised to 1/64 (tolerance 4%): their shapes are inputs",
                      "invariance pairs use a = 2^k or small integers and integer b so that a*z+b is exact in float32"]
    v.add_tlc(tlc.must_pass(tlc.run("MC_MatchedFilter", "MC_MatchedFilter.cfg", workers=4), "MC_MatchedFilter"), "MC_MatchedFilter")
    cases = []
    lens = list(range(8, 49))
    if quick:
        lens = [8, 9, 11, 13, 16, 17, 20, 23, 24, 27, 31, 32, 37, 41, 45, 48]
    for n in lens:
        for rep in range(2 if quick else 12):
            z = [rng.randrange(0, 10) for _ in range(n)]
            if rep % 2 == 0:          # a pulse somewhere, also at the edges
                w = rng.choice([1, 2, 3, 4])
                t0 = rng.choice([0, n - w, rng.randrange(0, n - w + 1)])
                z = [1] * n
                for i in range(t0, t0 + w):
                    z[i] = 9
            # spacings chosen so that DIFFERENT banks share (kind, largest width, number of templates) - e.g. max 4: (1,2,4) for 2 and (1,2,3) for
            # 7/4; max 8: (1,2,3,4,6) for 3/2 and (1,2,3,5,8) for 7/4 - all runs of a job share one process
            mx, (fn, fd) = min(n, rng.choice([4, 6, 8, 12])), rng.choice([(3, 2), (2, 1), (5, 4), (7, 4), (9, 5)])    # a template longer than the data is refused
            zs = sorted(z)
            iqr_pos = zs[(3 * n) // 4] > zs[n // 4]       # the invariance clause presupposes a non-zero scale estimate
            cases.append({"api": "MatchedFilter", "kind": "boxcar", "z": z, "mx": mx, "fn": fn, "fd": fd,
                          # every map is used in turn (not drawn): a baseline >> noise, scalings by 2^70 / 2^-60 - all exact in float32
                          "inv": [(2.0, 5.0), (4.0, 1048576.0), (0.5, -3.0), (2.0 ** 70, 0.0), (1.0, 500000.0), (4.0, 100.0), (2.0 ** -60, 0.0),
                                  (3.0, 0.0)][len(cases) % 8] if iqr_pos else None,
                          "inv_scale": ["iqr", "std", "iqr", "mad"][(len(cases) // 8) % 4]})
            for kind in ("gaussian", "lorentzian"):
                if n >= 24:
                    cases.append({"api": "MatchedFilter", "kind": kind, "z": z, "mx": 4, "fn": 2, "fd": 1})
            k = rng.randrange(1, 4)
            temps = [[rng.randrange(0, 5) for _ in range(rng.randrange(1, min(n, 9)))] for _ in range(k)]
            temps = [t if any(t) else [1] for t in temps]
            cases.append({"api": "kernel", "kind": "custom", "z": z, "temps": temps, "refs": [rng.randrange(0, len(t)) for t in temps]})
    for n, (fn, fd) in ([(8, (2, 1)), (16, (2, 1)), (12, (3, 2))] if quick else [(8, (2, 1)), (16, (2, 1)), (32, (2, 1)), (12, (3, 2)), (9, (3, 2)), (13, (5, 4))]):
        # a bank that reaches the data length itself: its widest boxcar has no variance left after mean removal (a null template)
        for rep in range(2):
            z = [rng.randrange(0, 10) for _ in range(n)]
            if rep:
                z = [1] * n
                z[n // 2], z[n // 2 + 1] = 9, 9
            cases.append({"api": "MatchedFilter", "kind": "boxcar", "z": z, "mx": n, "fn": fn, "fd": fd, "inv": None})
    for n in ([12, 17, 24, 33] if quick else [12, 13, 17, 20, 24, 29, 33, 40, 48]):      # noiseless pulses under the DEFAULT standardisation
        for w in (1, 2, 3):
            for t0 in (0, n - w, rng.randrange(1, n - w)):
                z = [3] * n
                for i in range(t0, t0 + w):
                    z[i] = 11
                if np.subtract(*np.percentile(z, [75, 25])) == 0:       # the clause presupposes a zero IQR (else the data are rescaled by it)
                    cases.append({"api": "MatchedFilter", "kind": "boxcar", "z": z, "mx": 4, "fn": 2, "fd": 1, "inv": None, "std": "default"})
    specs = [{"id": i, "cases": cases[i::14]} for i in range(14)]
    # histories in ONE process: banks that agree in kind, largest width and number of templates but not in their widths, back to back
    for si, seq in enumerate([[(4, 2, 1), (4, 7, 4), (4, 2, 1)], [(8, 3, 2), (8, 7, 4), (8, 9, 5), (8, 2, 1)], [(12, 7, 4), (12, 9, 5), (12, 7, 4)]]):
        for (mx, fn, fd) in seq:
            n = rng.choice([16, 21, 30])
            z = [1] * n
            t0 = rng.randrange(0, n - 3)
            for i in range(t0, t0 + rng.choice([2, 3])):
                z[i] = 9
            specs[si]["cases"].append({"api": "MatchedFilter", "kind": "boxcar", "z": z, "mx": mx, "fn": fn, "fd": fd, "inv": None})
    evs = [e for r in pool.pmap(job, specs, workers=14) for e in r]
    mf_keys = ("a", "z", "kind", "q", "tol", "reldiv", "mx", "fn", "fd", "widths", "bank", "convq", "snrq", "itemp", "peak", "on", "api", "outcome")
    inv_keys = ("a", "tol", "c1", "c2", "snr1", "snr2", "peak1", "peak2", "itemp1", "itemp2", "unique", "outcome")
    traces = [{"hdr": {}, "ev": [{k: e[k] for k in (mf_keys if e["a"] == "mf" else inv_keys)} for e in evs[i:i + 6]], "full": evs[i:i + 6]}
              for i in range(0, len(evs), 6)]
    for e in evs:
        v.evaluations += 1
        v.nontrivial.add(json.dumps({k: e[k] for k in e if k in ("a", "z", "kind", "mx", "fn", "fd", "bank", "scale", "offset")}))
    for tr, pos in tracecheck.validate("Trace_MatchedFilter", traces, verdict=v, label="matched filter runs", chunk=30, timeout=3000):
        e = tr["full"][abs(pos) - 1]
        n = len(e["z"])
        cfg = {"n": n, "z": e["z"], "kind": e["kind"], "mx": e.get("mx"), "spacing": [e.get("fn"), e.get("fd")]}
        if e["a"] == "mf":
            from sigpyproc.core.kernels import nb_fft_good_size
            cfg["fft_good"] = bool(int(nb_fft_good_size(n, True)) == n)
            cfg["api"] = e["api"]
            v.violation("ResponseIsNormalisedCorrelation" if e["outcome"] == "ok" else "MustNotRaise",
                        "MatchedFilter" if e["api"] == "MatchedFilter" else "kernels.convolve_templates", cfg,
                        {"outcome": e["outcome"], "snrq": e["snrq"], "itemp": e["itemp"], "peak": e["peak"], "on": e["on"],
                         "conv0": e["convq"][0][:10] if e["convq"] else []}, "MatchedFilter!RespNum/RespDen (Trace_MatchedFilter!MfOK)")
        else:
            cfg.update({"scale": e["scale"], "offset": e["offset"]})
            v.violation("AffineInvariance" if e["outcome"] == "ok" else "MustNotRaise", "MatchedFilter", cfg,
                        {"outcome": e["outcome"], "snr": [e["snr1"], e["snr2"]], "peak": [e["peak1"], e["peak2"]]}, "Trace_MatchedFilter!InvOK")
    v.traces += len(evs)
    e = next(x for x in evs if x["a"] == "mf" and x["kind"] == "boxcar")
    v.sample({k: (e[k] if k != "convq" else [r[:8] for r in e[k][:2]]) for k in ("z", "kind", "widths", "convq", "snrq", "itemp", "peak", "on", "outcome")})


def replay(v, path) -> None:
    print(open(path).read()[:1500])
    run(v)
