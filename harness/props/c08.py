"""C08 - output metadata describes the output data.

(M) MC_Metadata: for every channelisation (C<=6) and every op/parameter combination the natural header
    formulas meet the provenance requirement of Metadata!LabelsOK; two recorded wrong formulas (the pinned
    sub-band label, a stale label for extract_chans) are refuted.
(T) Trace_Metadata: headers of every output file (parsed independently from disk) of the C07 transforms and
    of every returned container (collapse, read_chan, dedisperse, read_block incl. by-frequency requests,
    block.downsample/dedisperse/get_tim, TimeSeries.downsample/pad) are projected to dimensionless integers
    and judged by TLC: labels by provenance, spacing, nchans, nsamples = data shape, tsamp factor, tstart
    advance within 5 us, recorded DM.  Non-dyadic channelisations (-0.1, +-1/3 MHz) are included.
"""
from __future__ import annotations

import json
import random

import numpy as np

from .. import fixtures, pool, tlc, tracecheck, transforms
from ..common import seed
from . import c07

BANDS = [(8.0, -1.0, 4148808), (1500.0, -0.1, 256), (400.0, 1.0 / 3.0, 64), (1400.0, -1.0 / 3.0, 1000), (1000.5, -4.0, 256)]
P0 = {"c0": 0, "ch": 0, "k": 0, "cps": 1, "ff": 1, "nsub": 1, "m": 1}
SITES = dict(c07.SITES, collapse="Filterbank.collapse", chan="Filterbank.read_chan", dedisp="Filterbank.dedisperse",
             read_block="FilReader.read_block", blk_downsample="FilterbankBlock.downsample",
             read_block_refuse="FilReader.read_block", blk_dedisperse="FilterbankBlock.dedisperse", get_tim="FilterbankBlock.get_tim", read_dedisp="FilReader.read_dedisp_block",
             ts_downsample="TimeSeries.downsample", ts_pad="TimeSeries.pad")


def project(fch1, foff, tsamp, tstart, dm, inh):
    return {"off2k": int(round(2000 * (fch1 - inh["fch1"]) / inh["foff"])), "stepk": int(round(1000 * foff / inh["foff"])),
            "tsk": int(round(1000 * tsamp / inh["tsamp"])), "dt_us": int(round((tstart - inh["tstart"]) * 86400e6)),
            "dm_milli": int(round(1000 * dm))}


def cont_job(spec):
    """Container-returning APIs."""
    from sigpyproc.readers import FilReader
    d = pool.worker_scratch()
    rng = np.random.default_rng(spec["seed"])
    n, c, nbits = spec["N"], spec["C"], spec["nbits"]
    top = {1: 2, 2: 4, 4: 16, 8: 256, 32: 256}[nbits]
    data = rng.integers(0, top, size=(n, c), dtype=np.int64)
    names = fixtures.write_set(d, f"c08_{spec['id']}", data, nbits, spec["split"], **spec["band"])
    inh, _ = fixtures.parse_sigproc(open(names[0], "rb").read())
    ev = []
    for call in spec["calls"]:
        fil = FilReader(names)
        op, start, nsamps, gulp = call["op"], call["start"], call["nsamps"], call["gulp"]
        e = {"op": op, "C": c, "start": start, "tf": 1, "tf0": 1, "container": True, "p": dict(P0), "dm_applied": -1,
             "ns_expected": nsamps, "rows": [], "sitekey": op, "gulp": gulp, "nsamps": nsamps}
        try:
            kw = {"gulp": gulp, "start": start, "nsamps": nsamps, "quiet": True}
            if op == "collapse":
                r = fil.collapse(**kw)
            elif op == "chan":
                e["p"]["ch"] = call["ch"]
                r = fil.read_chan(call["ch"], **kw)
            elif op == "dedisp":
                md = int(np.max(np.atleast_1d(fil.header.get_dmdelays(call["dm"]))))
                if md >= nsamps:
                    continue
                e["dm_applied"] = int(round(call["dm"] * 1000))
                e["ns_expected"] = nsamps - md
                r = fil.dedisperse(call["dm"], **kw)
            elif op == "read_block":
                c0, m = call["c0"], call["m"]
                e["p"].update({"c0": c0, "m": m})
                f1 = fil.header.fch1 + c0 * fil.header.foff
                r = fil.read_block(start, nsamps, fch1=f1, nchans=m) if call["byfreq"] else fil.read_block(start, nsamps)
                if not call["byfreq"]:
                    e["p"].update({"c0": 0, "m": c})
                a = np.asarray(r.data)
                e["rows"] = [[int(x) for x in row] for row in a] if np.all(a == np.round(a)) else [[-1]]
            elif op == "read_block_refuse":
                c0, m = call["c0"], call["m"]
                e["p"].update({"c0": c0, "m": m})
                f1 = fil.header.fch1 + (c0 + call.get("frac", 0.0)) * fil.header.foff
                try:
                    r = fil.read_block(start, nsamps, fch1=f1, nchans=m)
                    e["outcome"] = "ok"
                except ValueError:
                    e["outcome"] = "ValueError"
                except Exception as exc:  # noqa: BLE001
                    e["outcome"] = f"raise:{type(exc).__name__}"
                e["obs"] = {"off2k": 0, "stepk": 0, "tsk": 0, "dt_us": 0, "dm_milli": 0, "nchans": 0, "nsamples_hdr": 0, "nsamples_data": 0, "nbits": 0}
                fil._file.close()
                ev.append(e)
                continue
            elif op == "blk_downsample":
                tf, ff = call["tf"], call["ff"]
                e["op"], e["tf"], e["ns_expected"] = "downsample", tf, nsamps // tf
                e["p"]["ff"] = ff
                r = fil.read_block(start, nsamps).downsample(ffactor=ff, tfactor=tf)
            elif op == "blk_dedisperse":
                e["op"] = "extract_samps"
                e["dm_applied"] = int(round(call["dm"] * 1000))
                r = fil.read_block(start, nsamps).dedisperse(call["dm"])
            elif op == "read_dedisp":
                dl = np.atleast_1d(fil.header.get_dmdelays(call["dm"]))
                if np.any(start + dl < 0) or np.any(start + dl + nsamps > n):
                    continue                   # the dedispersed window leaves the file: refused by the library
                e["op"] = "extract_samps"
                e["dm_applied"] = int(round(call["dm"] * 1000))
                r = fil.read_dedisp_block(start, nsamps, call["dm"])
            elif op == "get_tim":
                r = fil.read_block(start, nsamps).get_tim()
            elif op == "ts_downsample":
                e["op"], e["tf"], e["ns_expected"] = "collapse", call["tf"], nsamps // call["tf"]
                r = fil.collapse(**kw).downsample(call["tf"])
            elif op == "ts_pad":
                e["op"], e["ns_expected"] = "collapse", nsamps + call["npad"]
                r = fil.collapse(**kw).pad(call["npad"])
            h = r.header
            shape = np.asarray(r.data).shape
            # a FilterbankBlock carries the applied DM as its own attribute; either place counts as "recorded"
            dm_rec = float(h.dm) if not (hasattr(r, "dm") and float(h.dm) == 0.0) else float(r.dm)
            o = project(float(h.fch1), float(h.foff), float(h.tsamp), float(h.tstart), dm_rec, inh)
            o.update({"nchans": int(h.nchans), "nsamples_hdr": int(h.nsamples), "nsamples_data": int(shape[-1]), "nbits": int(h.nbits)})
            e["obs"] = o
            e["outcome"] = "ok"
        except Exception as exc:  # noqa: BLE001
            e["outcome"] = f"raise:{type(exc).__name__}:{str(exc)[:80]}"
            e["obs"] = {"off2k": 0, "stepk": 0, "tsk": 0, "dt_us": 0, "dm_milli": 0, "nchans": 0, "nsamples_hdr": 0,
                        "nsamples_data": 0, "nbits": 0}
        fil._file.close()
        ev.append(e)
    return {"hdr": {"vals": [int(x) for x in data.ravel()], "tsamp_us": spec["tsamp_us"]}, "ev": ev,
            "spec": {k: spec[k] for k in ("N", "C", "nbits", "split", "id")} | {"band": spec["band"]}}


def file_events(result, tsamp_us):
    """Events for the output files of one transforms.job result."""
    c = result["hdr"]["nchans"]
    evs = []
    for rec in result["recs"]:
        if rec["outcome"] != "ok":
            continue  # data-path failures are C07's
        op, p = rec["op"], rec["params"]
        n, start = rec["nsamps"], rec["start"]
        md = max(rec["del"]) if op == "subband" else 0
        if op == "subband" and (md >= n or min(rec["del"]) < 0):
            continue
        for k, o in enumerate(rec["outs"]):
            if not o.get("ok"):
                continue
            pp = dict(P0)
            tf, ns = 1, n
            if op == "extract_chans":
                pp["ch"] = p["chans"][k]
            elif op == "extract_bands":
                pp.update({"c0": p["chanstart"], "k": k, "cps": p["chanpersub"]})
            elif op == "downsample":
                pp["ff"], tf, ns = p["ff"], p["tf"], n // p["tf"]
            elif op == "subband":
                pp["nsub"], ns = p["nsub"], n - md
            h = o["hdr"]
            obs = project(h["fch1"], h["foff"], h["tsamp"], h["tstart"], h.get("refdm", 0.0), rec["in_hdr"])
            nsd = (o["datalen"] * 8) // max(1, o["nbits"] * o["nchans"])
            obs.update({"nchans": o["nchans"], "nsamples_hdr": nsd, "nsamples_data": nsd, "nbits": o["nbits"]})
            evs.append({"op": op, "C": c, "start": start, "tf": tf, "tf0": 1, "container": False, "p": pp,
                        "dm_applied": int(round(p["dm"] * 1000)) if op == "subband" else -1, "ns_expected": ns, "rows": [],
                        "obs": obs, "outcome": "ok", "sitekey": op, "gulp": rec["gulp"], "nsamps": n,
                        "params": p})
    return evs


def run(v) -> None:
    rng = random.Random(seed())
    quick = v.tier == "quick"
    v.rule = ("products distinct by (band, file, op, parameters, range, output index); non-trivial = start > 0 or a "
              "non-identity channel mapping or a non-dyadic channel spacing")
    v.assumptions += ["labels compared in input-channel units (tolerance 1/1000 channel), tstart within 5 us",
                      "output files parsed independently (fixtures.parse_sigproc)"]
    v.add_tlc(tlc.must_pass(tlc.run("MC_Metadata", "MC_Metadata_none.cfg", workers=4), "MC_Metadata"), "MC_Metadata")
    tlc.must_fail(tlc.run("MC_Metadata", "MC_Metadata_subband_pinned.cfg", workers=2), "pinned sub-band label")
    tlc.must_fail(tlc.run("MC_Metadata", "MC_Metadata_chans_stale.cfg", workers=2), "stale extract_chans label")
    # files -------------------------------------------------------------------------------------------
    fspecs, fband = [], {}
    for bi, (fch1, foff, ts_us) in enumerate(BANDS):
        band = {"fch1": fch1, "foff": foff, "tsamp": ts_us / 1e6}
        specs = c07.build_specs(random.Random(seed() + bi), True, list(c07.SITES), band=band)
        specs = specs[:: (6 if quick else 1)]
        for s in specs:
            s["id"] = len(fspecs) + 1
            s["calls"] = s["calls"][: (8 if quick else 30)]
            fband[s["id"]] = ts_us
            fspecs.append(s)
    # containers ------------------------------------------------------------------------------------------
    cspecs = []
    for bi, (fch1, foff, ts_us) in enumerate(BANDS):
        for n, nbits, c in ([(9, 8, 4), (7, 2, 4)] if quick else [(9, 8, 4), (7, 2, 4), (12, 32, 3), (10, 4, 6)]):
            calls = []
            for _ in range(10 if quick else 160):
                start = rng.randrange(0, n - 1)
                nsamps = rng.randrange(2, n - start + 1) if n - start >= 2 else 1
                gulp = rng.choice([1, 2, 3, n + 1])
                base = {"start": start, "nsamps": nsamps, "gulp": gulp}
                c0 = rng.randrange(0, c)
                m = rng.randrange(1, c - c0 + 1)
                calls += [dict(base, op="collapse"), dict(base, op="chan", ch=rng.randrange(c)),
                          dict(base, op="dedisp", dm=rng.choice([0.0, 0.2, 0.4])),
                          dict(base, op="read_block", c0=c0, m=m, byfreq=True), dict(base, op="read_block", c0=0, m=c, byfreq=False),
                          dict(base, op="read_block_refuse", c0=c0, m=c - c0 + rng.choice([1, 2])),       # runs past the last channel
                          dict(base, op="read_block_refuse", c0=-1, m=1), dict(base, op="read_block_refuse", c0=c, m=1),
                          dict(base, op="blk_downsample", tf=rng.choice([1, 2]), ff=rng.choice([f for f in (1, 2, 3) if c % f == 0])),
                          dict(base, op="blk_dedisperse", dm=rng.choice([0.0, 0.2])), dict(base, op="get_tim"),
                          dict(base, op="read_dedisp", dm=rng.choice([0.0, 0.2, 0.4, -0.2])),
                          dict(base, op="read_dedisp", start=rng.randrange(0, max(1, n // 2)), nsamps=rng.randrange(1, max(2, n // 3)), dm=rng.choice([0.2, 0.4, -0.3])),
                          dict(base, op="ts_downsample", tf=rng.choice([t for t in (1, 2, 3) if t < nsamps] or [1])), dict(base, op="ts_pad", npad=rng.choice([1, 5]))]
            cspecs.append({"id": len(cspecs) + 1, "seed": seed() * 13 + len(cspecs), "N": n, "C": c, "nbits": nbits,
                           "split": [n] if len(cspecs) % 2 else [n // 2, n - n // 2], "calls": calls,
                           "band": {"fch1": fch1, "foff": foff, "tsamp": ts_us / 1e6}, "tsamp_us": ts_us})
    fres = pool.pmap(transforms.job, fspecs, workers=14)
    cres = pool.pmap(cont_job, cspecs, workers=14)
    traces = []
    for r in fres:
        ts_us = fband[r["spec"]["id"]]
        evs = file_events(r, ts_us)
        if evs:
            traces.append({"hdr": {"vals": r["hdr"]["vals"], "tsamp_us": ts_us}, "ev": evs,
                           "spec": dict(r["spec"], band=r["band"])})
    traces += [t for t in cres if t["ev"]]
    nev = 0
    for t in traces:
        for e in t["ev"]:
            nev += 1
            v.evaluations += 1
            if e["start"] > 0 or e["op"] not in ("extract_samps", "mask", "zerodm") or abs(t["spec"]["band"]["foff"]) not in (1.0, 4.0):
                v.nontrivial.add((t["spec"]["id"], e["container"], e["sitekey"], e["start"], e["nsamps"], e["gulp"],
                                  json.dumps(e["p"], sort_keys=True), e["tf"]))
    keys = ("op", "C", "start", "tf", "tf0", "container", "p", "dm_applied", "ns_expected", "rows", "obs", "outcome")
    slim = [{"hdr": t["hdr"], "ev": [{k: e[k] for k in keys} for e in t["ev"]], "full": t} for t in traces]
    for tr, pos in tracecheck.validate("Trace_Metadata", slim, verdict=v, label="product headers", chunk=60):
        t = tr["full"]
        e = t["ev"][abs(pos) - 1]
        cfg = dict(t["spec"])
        cfg.update({"op": e["sitekey"], "start": e["start"], "nsamps": e["nsamps"], "gulp": e["gulp"], "p": e["p"],
                    "tf": e["tf"], "container": e["container"], "ns_expected": e["ns_expected"], "dm_applied": e["dm_applied"],
                    "C": e["C"]})
        o = e["obs"]
        c = e["C"]
        # name the failing clause (python mirrors of the TLA+ conjuncts, for the message only)
        clause = "HeaderMatchesData"
        if e["op"] == "read_block_refuse":
            clause = "NonExistentChannelsRefused"
        elif e["outcome"] != "ok":
            clause = "MustNotRaise"
        elif abs(o["dt_us"] - e["start"] * t["hdr"]["tsamp_us"]) > 5:
            clause = "TstartAdvanced"
        elif e["container"] and o["nsamples_hdr"] != o["nsamples_data"]:
            clause = "NsamplesIsShape"
        elif abs(o["tsk"] - 1000 * e["tf"]) > 1:
            clause = "TsampScaled"
        elif e["dm_applied"] >= 0 and abs(o["dm_milli"] - e["dm_applied"]) > 1:
            clause = "DMRecorded"
        elif o["nsamples_data"] != e["ns_expected"]:
            clause = "SampleCount"
        else:
            clause = "ChannelLabels"
        v.violation(clause, SITES[e["sitekey"]], cfg, {"outcome": e["outcome"], "obs": o}, "Metadata (see Trace_Metadata!EvOK)")
    v.traces += nev
    v.extra["products_validated"] = nev
    for t in (traces[:1] + traces[-1:]):
        e = t["ev"][0]
        v.sample({"band": t["spec"]["band"], "op": e["sitekey"], "start": e["start"], "p": e["p"], "obs": e["obs"]})


def replay(v, path) -> None:
    print(open(path).read()[:2000])
    run(v)
