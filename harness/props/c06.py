"""C06 - streaming reductions are independent of gulp size and equal their definitions.

(M) Pipeline: the step-wise consumers (index arithmetic ii*gulp, ii*(gulp-maxdelay), slice assignment,
    +=) over the plan of PlanArith equal the whole-array definitions of Reductions for every gulp,
    sub-range and delay vector with N<=6, C<=2 (identity-weighted data: a sum encodes the multiset
    of samples summed); prefix invariant; no out-of-bounds write; witness reachable.
(T) Trace_Reductions: recorded calls of collapse/bandpass/read_chan/dedisperse/compute_stats(_basic)
    on real files at depths {1,2,4,8,32}, every gulp x sub-range of small files + random larger ones,
    are accepted only if values AND length equal the definition evaluated by TLC on the model stream.
"""
from __future__ import annotations

import json
import random

import numpy as np

from .. import fixtures, pool, tlc, tracecheck
from ..common import scratch, seed

DEPTH_CH = {1: [8], 2: [4], 4: [2, 4], 8: [2, 3, 4, 1], 32: [2, 3, 1]}
Q = 1024
# band for which dm values give convenient integer delays (checked against the law in C09, here only reported)
BAND = {"fch1": 8.0, "foff": -1.0, "tsamp": 4.148808}


def _ints(a):
    a = np.asarray(a)
    if a.dtype.kind == "f" and not np.all(np.isfinite(a)):
        return [-999999]
    if a.dtype.kind == "f" and not np.all(a == np.round(a)):
        return [-999998]
    return [int(x) for x in a]


def _fx(x, q):
    x = float(x)
    if not np.isfinite(x):
        return 2_000_000_000
    r = int(round(x * q))
    return max(-2_000_000_000, min(2_000_000_000, r))


def _call(fn):
    try:
        return "ok", fn()
    except Exception as exc:  # noqa: BLE001
        return f"raise:{type(exc).__name__}:{str(exc)[:60]}", None


def job(spec):
    """Runs in a pool worker: build the file set, run every requested call, return one trace."""
    from sigpyproc.readers import FilReader
    d = pool.worker_scratch()
    rng = np.random.default_rng(spec["seed"])
    n, c, nbits = spec["N"], spec["C"], spec["nbits"]
    top = {1: 2, 2: 4, 4: 16, 8: 256, 32: spec.get("top32", 4096)}[nbits]
    if spec["data"] == "identity":
        data = (np.arange(n * c, dtype=np.int64) % top).reshape(n, c)
    elif spec["data"] == "runs":      # runs of all-zero samples between non-zero ones: whole gulps of zeros, ties with a zero running mean
        r = int(rng.integers(1, 4))
        data = rng.integers(1, max(2, top), size=(n, c), dtype=np.int64)
        data[(np.arange(n) // r) % 2 == 1] = 0
    else:
        data = rng.integers(0, top, size=(n, c), dtype=np.int64)
    if nbits == 32:
        data = data - top // 2          # float samples are signed: sums, means and extrema of either sign
    band = dict(BAND, fch1=float(max(8, c + 4)))     # every channel frequency >= 5 MHz
    names = fixtures.write_set(d, f"c06_{spec['id']}", data, nbits, spec["split"], longname=(spec["id"] % 3 == 1), **band)
    files = [list(open(f, "rb").read()[-(k * c * nbits // 8):]) if k else [] for f, k in zip(names, spec["split"])]
    hdr = {"files": files, "nbits": nbits, "nchans": c, "vals": [int(x) for x in data.ravel()], "N": n}
    ev = []
    fil = FilReader(names)     # one reader object for the whole history of calls
    for call in spec["calls"]:
        op, gulp, start, nsamps = call["op"], call["gulp"], call["start"], call["nsamps"]
        # 'dflt': the range runs to the end of the file and nsamps is LEFT TO ITS DEFAULT (the spec still sees the explicit length)
        rk = {"gulp": gulp, "start": start, "quiet": True} if call.get("dflt") else {"gulp": gulp, "start": start, "nsamps": nsamps, "quiet": True}
        e = {"op": op, "gulp": gulp, "start": start, "nsamps": nsamps, "q": Q, "ch": call.get("ch", 0),
             "del": [0] * c, "vals": [], "valsq": [], "chans": [], "full": False, "hdr_nsamples": -1}
        if op == "collapse":
            oc, r = _call(lambda: fil.collapse(**rk))
            if r is not None:
                e["vals"] = _ints(r.data)
                e["hdr_nsamples"] = int(r.header.nsamples)
        elif op == "chan":
            oc, r = _call(lambda: fil.read_chan(call["ch"], **rk))
            if r is not None:
                e["vals"] = _ints(r.data)
                e["hdr_nsamples"] = int(r.header.nsamples)
        elif op == "bandpass":
            oc, r = _call(lambda: fil.bandpass(**rk))
            if r is not None:
                e["valsq"] = [_fx(x, Q) for x in r.data]
        elif op == "dedisp":
            dm = call["dm"]
            dels = [int(x) for x in np.atleast_1d(fil.header.get_dmdelays(dm))]
            e["del"] = dels
            e["dm_milli"] = int(round(dm * 1000))
            oc, r = _call(lambda: fil.dedisperse(dm, **rk))
            if r is not None:
                e["vals"] = _ints(r.data)
                e["hdr_nsamples"] = int(r.header.nsamples)
        else:  # stats / stats_basic
            full = op == "stats"
            f = fil.compute_stats if full else fil.compute_stats_basic
            oc, _ = _call(lambda: f(**rk))
            e["op"] = "stats"
            e["mode"] = "full" if full else "basic"
            e["full"] = bool(full and nsamps <= 12 and top <= 4)
            if oc == "ok":
                st = fil.chan_stats
                with np.errstate(all="ignore"):
                    cnt = st.moments["count"]
                    mean, var, mx, mn = st.mean, st.var, st.maxima, st.minima
                    sk = st.skew if full else np.zeros(c)
                    ku = st.kurtosis if full else np.zeros(c)
                e["chans"] = [{"count": int(cnt[i]), "mn": _fx(mn[i], 1), "mx": _fx(mx[i], 1), "meanq": _fx(mean[i], Q),
                               "varq": _fx(var[i], Q), "skewq": _fx(sk[i], 64), "kurtq": _fx(ku[i], 64)} for i in range(c)]
        e["outcome"] = oc if oc == "ok" else oc
        ev.append(e)
    fil._file.close()
    return {"hdr": hdr, "ev": ev, "spec": {k: spec[k] for k in ("N", "C", "nbits", "split", "data", "id")}}


def run(v) -> None:
    rng = random.Random(seed())
    quick = v.tier == "quick"
    v.rule = ("calls distinct by (depth, C, split, op, gulp, start, nsamps, dm/channel); non-trivial = >= 2 blocks "
              "(gulp < nsamps) or a proper sub-range or a non-zero delay vector")
    v.assumptions += ["delays are those the library reports for the DM (the law itself is C09)", "delays >= 0",
                      "integer-valued samples so float32 sums are exact; float results compared in fixed point "
                      "(q=1024; tolerance 2..3 units + float32 relative error)",
                      "skew/kurtosis values only checked for <= 2-bit data and nsamps <= 12 (32-bit TLC integers)"]
    # (M) ------------------------------------------------------------------------------------------------
    res = tlc.must_pass(tlc.run("Pipeline", "MC_Pipeline.cfg" if quick else "MC_Pipeline_big.cfg", workers=12,
                                timeout=3000), "MC_Pipeline")
    v.add_tlc(res, "MC_Pipeline")
    tlc.must_fail(tlc.run("Pipeline", "MC_Pipeline_witness.cfg", workers=8), "witness small-gulp dedispersion",
                  "WitnessSmallGulpDedisp")
    # (T) -------------------------------------------------------------------------------------------------
    specs = []
    sid = 0
    dms = [0.0, 0.2, 0.4, 0.1, 0.7]

    def add_spec(n, c, nbits, k, data, calls):
        nonlocal sid
        sid += 1
        cuts = sorted(rng.sample(range(1, n), k - 1)) if k > 1 and n > k else []
        split = [b - a for a, b in zip([0, *cuts], [*cuts, n])]
        specs.append({"id": sid, "seed": seed() * 100003 + sid, "N": n, "C": c, "nbits": nbits, "split": split,
                      "data": data, "calls": calls, "top32": 256})

    def calls_for(n, c, gulps, ranges, ops):
        out = []
        for (start, nsamps) in ranges:
            dflt = (start + nsamps == n)
            for gulp in gulps:
                # both orders of the two statistics passes over the SAME range on the same reader (basic then full, full then basic)
                for op in (ops if gulp % 2 else [o for o in ops if o not in ("stats", "stats_basic")] + ["stats_basic", "stats"]):
                    if op == "dedisp" and c == 1:
                        continue   # one channel: no dispersion across channels (get_dmdelays returns a 0-d array)
                    if op == "dedisp":
                        for dm in dms[:3] if quick else dms:
                            out.append({"op": op, "gulp": gulp, "start": start, "nsamps": nsamps, "dm": dm, "dflt": dflt and gulp % 2 == 0})
                    elif op == "chan":
                        out.append({"op": op, "gulp": gulp, "start": start, "nsamps": nsamps, "ch": (gulp + start) % c, "dflt": dflt and gulp % 2 == 0})
                    else:
                        out.append({"op": op, "gulp": gulp, "start": start, "nsamps": nsamps, "dflt": dflt and gulp % 2 == 0})
        return out

    ops = ["collapse", "bandpass", "chan", "dedisp", "stats", "stats_basic"]
    # exhaustive gulps x sub-ranges on small files, rotating depth
    small = [(7, 8), (6, 2), (9, 1)] if quick else [(7, 8), (6, 2), (9, 1), (10, 4), (8, 32), (12, 2)]
    for i, (n, nbits) in enumerate(small):
        c = DEPTH_CH[nbits][i % len(DEPTH_CH[nbits])]
        ranges = [(s, m) for s in range(0, n) for m in range(1, n - s + 1)]
        if quick:
            ranges = [r for j, r in enumerate(ranges) if j % 2 == 0 or r == (0, n)]
        gulps = list(range(1, n + 2))
        # split the work over several files so that workers share it
        per = 40
        allc = calls_for(n, c, gulps, ranges, ops)
        for j in range(0, len(allc), per * 6):
            add_spec(n, c, nbits, 1 + (j // (per * 6)) % 3, ("identity", "random", "runs")[(j // per) % 3], allc[j:j + per * 6])
    # random larger configurations at every depth
    for _ in range(40 if quick else 1500):
        nbits = rng.choice([1, 2, 4, 8, 32])
        c = rng.choice(DEPTH_CH[nbits])
        n = rng.randrange(12, 64)
        calls = []
        for _ in range(6):
            start = rng.randrange(0, n - 1)
            nsamps = rng.randrange(1, n - start + 1)
            gulp = rng.choice([1, 2, 3, 5, 7, rng.randrange(1, n + 2), nsamps, nsamps + 3])
            calls += calls_for(n, c, [gulp], [(start, nsamps)], ops)
        add_spec(n, c, nbits, rng.choice([1, 2, 3]), rng.choice(["identity", "random", "runs"]), calls)
    # at scale: files longer than the kernels' internal tiling (1024 .. 16384 samples), gulps around the default 16384
    for (n, c, nbits) in ([(2500, 4, 8)] if quick else [(2500, 4, 8), (20000, 2, 8), (3001, 4, 2), (5000, 2, 32)]):
        big = []
        for (start, nsamps) in [(0, n), (7, n - 7), (n // 3, n // 2 + 1)]:
            for gulp in (16384, 1000, n + 1):
                for op in ("collapse", "bandpass", "chan", "dedisp"):
                    call = {"op": op, "gulp": gulp, "start": start, "nsamps": nsamps, "dflt": start + nsamps == n and gulp == 1000}
                    if op == "dedisp":
                        call["dm"] = 0.2
                    if op == "chan":
                        call["ch"] = (start + gulp) % c
                    big.append(call)
        add_spec(n, c, nbits, 2, "random", big)
    traces = pool.pmap(job, specs, workers=14)
    # dedispersion calls whose max delay >= nsamps are outside the property: drop them (count as precondition-false)
    skipped = 0
    for t in traces:
        keep = []
        for e in t["ev"]:
            if e["op"] == "dedisp" and (max(e["del"]) >= e["nsamps"] or min(e["del"]) < 0):
                skipped += 1
                continue
            keep.append(e)
        t["ev"] = keep
    nev = 0
    for t in traces:
        for e in t["ev"]:
            nev += 1
            v.evaluations += 1
            if e["gulp"] < e["nsamps"] or e["nsamps"] < t["hdr"]["N"] or max(e["del"]) > 0:
                v.nontrivial.add((t["spec"]["id"], e["op"], e.get("mode", ""), e["gulp"], e["start"], e["nsamps"],
                                  tuple(e["del"]), e["ch"]))

    def site(e):
        return {"collapse": "Filterbank.collapse", "chan": "Filterbank.read_chan", "bandpass": "Filterbank.bandpass",
                "dedisp": "Filterbank.dedisperse", "stats": "Filterbank.compute_stats"}[e["op"]] + \
            ("_basic" if e.get("mode") == "basic" else "")

    def on_reject(tr, pos):
        e = tr["ev"][abs(pos) - 1]
        cfg = dict(tr["spec"])
        cfg.update({k: e[k] for k in ("op", "gulp", "start", "nsamps", "del", "ch")})
        cfg["mode"] = e.get("mode", "")
        cfg["subrange"] = bool(e["nsamps"] < tr["hdr"]["N"])
        cfg["multiblock"] = bool(e["gulp"] < e["nsamps"])
        clause = "ResultIsDef" if e["outcome"] == "ok" else "MustNotRaise"
        obs = {"outcome": e["outcome"], "len": len(e["vals"]), "vals": e["vals"][:16], "valsq": e["valsq"][:8],
               "chans": e["chans"][:2], "hdr_nsamples": e["hdr_nsamples"]}
        v.violation(clause, site(e), cfg, obs, "Reductions!Def (see Trace_Reductions!EvOK)")
        return None

    for tr, pos in tracecheck.validate("Trace_Reductions", traces, verdict=v, label="reduction calls", chunk=40):
        on_reject(tr, pos)
    v.traces += nev
    v.extra["calls_validated"] = nev
    v.extra["dedisp_calls_outside_precondition"] = skipped
    t0 = traces[0]
    v.sample({"file": t0["spec"], "call": {k: t0["ev"][0][k] for k in ("op", "gulp", "start", "nsamps", "vals", "outcome")}})
    dd = [e for t in traces for e in t["ev"] if e["op"] == "dedisp" and max(e["del"]) > 0 and e["gulp"] < e["nsamps"]]
    if dd:
        v.sample({"call": {k: dd[0][k] for k in ("op", "gulp", "start", "nsamps", "del", "vals", "outcome")}})


def replay(v, path) -> None:
    data = json.loads(open(path).read())
    for case in data["cases"][:3]:
        c = case["cfg"]
        spec = {"id": 0, "seed": seed(), "N": c["N"], "C": c["C"], "nbits": c["nbits"], "split": c["split"], "data": c["data"],
                "calls": [{"op": c["op"] if c.get("mode") != "basic" else "stats_basic", "gulp": c["gulp"], "start": c["start"],
                           "nsamps": c["nsamps"], "ch": c["ch"], "dm": 0.2}]}
        print("replayed:", job(spec)["ev"])
    run(v)
