"""C17 - re-tuning a folded cube depends only on the target DM/period, not the history.

(M) FoldedCube: with registers kept relative to the FOLDING values every history over the target
    alphabets leaves rot = Implied(dm, period) (HistoryFree), returning to the folding values restores
    rot = 0, repeating an update is a stutter (action property); the pinned commit's bookkeeping (new
    target measured against the overwritten current value) is refuted in three steps.
(T) Trace_FoldedCube: every history up to depth 3 (4 thorough) over 3 DM x 3 period targets (plus random
    histories to depth 12) on real FoldedData cubes whose profiles are distinct ramps; after each call
    the rotation of every profile is read back from the data and TLC requires it to be the one implied
    by the current targets, with shift tables measured once on fresh cubes.
"""
from __future__ import annotations

import itertools
import json
import random

import numpy as np

from .. import fixtures, pool, tlc, tracecheck
from ..common import seed

# Two families of targets.  A: period targets within 1e-6 of the folding period over a LONG observation (tobs = 1e4 s) - many bins
# of drift from tiny period changes, including one target whose whole drift is below one bin.  B: period targets 10 % away from
# the folding period over a short observation - the DM rotation (defined in bins of the FOLDING period) must not depend on
# which period is installed.  dbins = (P_new/P_fold - 1) * tobs * nbins / P_fold is supplied to TLC exactly as dbn/dbd.
FAMILIES = {
    "A": {"dms": [10.0, 12.0, 20.0, 5.0],                       # index 0 = folding DM
          "pk": [0, 10000, -20000, 50, -100, 3],               # P = 0.01 s + k * 1e-10 s  ->  dbins = k * nbins / 100
          "periods": [0.01 + k * 1e-10 for k in [0, 10000, -20000, 50, -100, 3]],
          "dbn_per_bin": [0, 10000, -20000, 50, -100, 3], "dbd": 100, "tsamp": 1.0e4 / 4, "nsamp": 4, "pfold": "1/100"},
    "B": {"dms": [10.0, 48.0, 30.0, 2.0],
          "pk": [0, 6, -5, 1, -1, 2],                            # P = 0.5 s + k * 0.01 s, tobs = 8 s  ->  dbins = k * 32 * nbins / 100
          "periods": [0.5 + k * 0.01 for k in [0, 6, -5, 1, -1, 2]],
          "dbn_per_bin": [0, 192, -160, 32, -32, 64], "dbd": 100, "tsamp": 2.0, "nsamp": 4, "pfold": "1/2"},
}


def make_cube(hdr, shape, fam):
    from sigpyproc.foldedcube import FoldedData
    DMS, PERIODS = fam["dms"], fam["periods"]
    nints, nbands, nbins = shape
    data = np.zeros(shape, dtype=np.float32)
    for i in range(nints):
        for j in range(nbands):
            data[i, j] = 1000 * (i * nbands + j) + np.arange(nbins) ** 2          # distinct, non-symmetric ramps
    return FoldedData(data.copy(), hdr, PERIODS[0], DMS[0]), data


def rotations(cube, orig):
    """rot[i][j] = r such that the profile equals np.roll(original, -r); -1 if it is not a rotation."""
    nints, nbands, nbins = orig.shape
    out = []
    for i in range(nints):
        row = []
        for j in range(nbands):
            cur = np.asarray(cube.data[i][j])
            r = -1
            for k in range(nbins):
                if np.array_equal(np.roll(orig[i, j], -k), cur):
                    r = k
                    break
            row.append(r)
        out.append(row)
    return out


def job(spec):
    from sigpyproc.readers import FilReader
    d = pool.worker_scratch()
    fam = FAMILIES[spec["family"]]
    DMS, PERIODS = fam["dms"], fam["periods"]
    p = d / f"c17_{spec['id']}.fil"
    fixtures.write_fil(p, np.zeros(64 * fam["nsamp"], dtype=np.int64), 64, 8, fch1=400.0, foff=-1.0, tsamp=fam["tsamp"])
    hdr = FilReader(str(p)).header
    traces = []
    for shape in spec["shapes"]:
        nints, nbands, nbins = shape
        # shift tables from fresh cubes updated once
        sdm, sp = [], []
        for dmv in DMS:
            c, o = make_cube(hdr, shape, fam)
            if dmv != DMS[0]:
                c.update_dm(dmv)
            sdm.append(rotations(c, o)[0])                # rotation of profile (0, j)
        for pv in PERIODS:
            c, o = make_cube(hdr, shape, fam)
            if pv != PERIODS[0]:
                c.update_period(pv)
            sp.append([rotations(c, o)[i][0] for i in range(nints)])
        # the DM shift the dispersion law implies (exact rationals, computed here from the documented law - NOT from the code - and
        # handed to TLC in fixed point q = 4096 with the float32 evaluation band of C09): sub-band j sits at fch1 + j*foff*nchans/nbands,
        # shift = K * (DM - DM_fold) * (1/f_j^2 - 1/fch1^2) * nbins / P_fold bins, rounded to the nearest bin
        from fractions import Fraction as Fr
        K, LQ = Fr(4148808, 1000), 4096
        law, lawband = [], []
        for dmv in DMS:
            dd = Fr(str(dmv)) - Fr(str(DMS[0]))
            row, brow = [], []
            for j in range(nbands):
                fj, f1 = Fr(400) + j * Fr(-64, nbands), Fr(400)
                scale = K * dd * nbins / Fr(fam["pfold"])
                x = scale * (1 / fj ** 2 - 1 / f1 ** 2)
                tt = abs(scale) * (1 / fj ** 2 + 1 / f1 ** 2)
                row.append(int(x * LQ // 1))
                brow.append(int(tt * LQ / 131072) + 2)
            law.append(row)
            lawband.append(brow)
        h = {"nints": nints, "nbands": nbands, "nbins": nbins, "sdm": sdm, "sp": sp, "dbn": [k * nbins for k in fam["dbn_per_bin"]],
             "dbd": fam["dbd"], "lawq": law, "lawband": lawband, "lq": LQ}
        for hist in spec["hists"]:
            cube, orig = make_cube(hdr, shape, fam)
            ev = []
            for (op, t) in hist:
                e = {"op": op, "target": t + 1}
                try:
                    if op == "dm":
                        cube.update_dm(DMS[t])
                    else:
                        cube.update_period(PERIODS[t])
                    e["outcome"] = "ok"
                except Exception as exc:  # noqa: BLE001
                    e["outcome"] = f"raise:{type(exc).__name__}"
                e["rot"] = rotations(cube, orig)
                e["rep_dm"] = DMS.index(cube.dm) + 1 if cube.dm in DMS else 0
                e["rep_period"] = PERIODS.index(cube.period) + 1 if cube.period in PERIODS else 0
                ev.append(e)
            traces.append({"hdr": h, "ev": ev, "cfg": {"family": spec["family"], "shape": list(shape), "history": [[o, t + 1] for o, t in hist]}})
    return traces


def run(v) -> None:
    rng = random.Random(seed())
    quick = v.tier == "quick"
    v.rule = "histories distinct by (cube shape, sequence of (op, target)); non-trivial = length >= 2"
    v.assumptions += ["shift tables are measured once per shape on fresh cubes (the property's oracle)",
                      "profiles are distinct non-symmetric ramps: the applied rotation is read exactly from the data",
                      "targets: family A 4 DMs x 6 periods 0.01 s + k*1e-10 s over 1e4 s (one target drifts by less than a bin in all); family B 4 DMs x 6 periods 0.5 s + k*0.01 s over 8 s; band 400 MHz, 64 x -1 MHz", "the period drift is computed by TLC from the documented relation; the DM shift table is measured on fresh cubes (the law is C09)"]
    v.add_tlc(tlc.must_pass(tlc.run("FoldedCube", "MC_FoldedCube_intended.cfg", workers=4), "FoldedCube intended"), "MC_FoldedCube")
    tlc.must_fail(tlc.run("FoldedCube", "MC_FoldedCube_pinned.cfg", workers=4), "pinned registers")
    ops = [("dm", t) for t in range(3)] + [("period", t) for t in (0, 1, 5)]
    depth = 3 if quick else 4
    hists = [list(h) for k in range(1, depth + 1) for h in itertools.product(ops, repeat=k)]
    ops4 = [("dm", t) for t in range(4)] + [("period", t) for t in range(6)]
    for _ in range(60 if quick else 4000):
        hists.append([rng.choice(ops4) for _ in range(rng.randrange(4, 13))])
    shapes = [(3, 4, 16), (2, 2, 8), (3, 1, 8)] if quick else [(3, 4, 16), (2, 2, 8), (4, 8, 32), (1, 4, 16), (5, 1, 16)]
    specs = [{"id": i, "family": "AB"[i % 2], "shapes": shapes, "hists": hists[i // 2::14]} for i in range(28)]
    traces = [t for r in pool.pmap(job, specs, workers=14) for t in r]
    for t in traces:
        v.evaluations += 1
        if len(t["ev"]) >= 2:
            v.nontrivial.add(json.dumps(t["cfg"]))

    def on_reject(tr, pos):
        e = tr["ev"][pos - 1]
        cfg = dict(tr["cfg"], event_index=pos)
        cfg["history"] = cfg["history"][:pos]
        notrot = any(r < 0 for row in e["rot"] for r in row)
        clause = "RotationOnly" if notrot else ("HistoryFree" if e["outcome"] == "ok" else "MustNotRaise")
        v.violation(clause, "FoldedData.update_dm" if e["op"] == "dm" else "FoldedData.update_period", cfg,
                    {"rot": e["rot"], "rep_dm": e["rep_dm"], "rep_period": e["rep_period"], "outcome": e["outcome"]},
                    "Implied(dm, period) from the shift tables (Trace_FoldedCube!Step)")
        return None

    tracecheck.validate_total("Trace_FoldedCube", traces, on_reject, verdict=v, label="FoldedData histories", chunk=2000)
    v.traces += len(traces)
    v.sample({"cfg": traces[len(traces) // 2]["cfg"], "tables": {k: traces[0]["hdr"][k] for k in ("sdm", "sp")},
              "events": traces[len(traces) // 2]["ev"]})
    v.extra["shift_tables_nontrivial"] = bool(any(any(x != 0 for x in row) for t in traces[:1] for row in t["hdr"]["sdm"]))


def replay(v, path) -> None:
    print(open(path).read()[:1500])
    run(v)
