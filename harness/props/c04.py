"""C04 - what is written is what is read back, for every format and sample depth.

(M) MC_Writer: every sequence of cwrite(n samples, dtype) x {Convert, Refuse} at every depth/channel count keeps
    Width (data bytes * 8 = values * nbits) and Count (reader-inferred samples = samples written); the
    'own width' writer of the pinned commit is refuted.
(T) Trace_Formats: (a) writer sessions prep_outfile(nbits); cwrite(array of dtype)*; read back with FilReader -
    every cwrite must be Convert or Refuse (file size after each call), the read-back must return the written
    values in order with the inferred count; (b) round trips through .tim, .dat/.inf, .spec, .fft/.inf and
    FilterbankBlock.to_file: values, count, tsamp/tstart/DM.
"""
from __future__ import annotations

import itertools
import json
import os
import random

import numpy as np

from .. import fixtures, pool, tlc, tracecheck
from ..common import seed

DT = {"u1": np.uint8, "u2": np.uint16, "i8": np.int64, "f4": np.float32, "f8": np.float64,
      # the same in-memory types in the other byte order (arrays that come from FITS tables, memmaps of big-endian payloads ...)
      "U2": np.dtype(">u2"), "F4": np.dtype(">f4")}
CH = {1: [8, 16], 2: [4, 8], 4: [2, 4], 8: [1, 2, 4], 16: [1, 2], 32: [1, 2, 4]}


def _compress(vals):
    """Large value sequences travel as [marker, length, crc32 of every 4096-value chunk]: TLC compares the digests."""
    import zlib
    a = np.asarray(vals)
    if a.size <= 5000:
        return [int(x) for x in a]
    if not np.all(a == np.round(a)):
        return [-9999, int(a.size)]
    a = a.astype(np.int64)
    return [-7777, int(a.size)] + [int(zlib.crc32(a[i:i + 4096].tobytes()) & 0x7FFFFFFF) for i in range(0, a.size, 4096)]


def _hdr(d, tag, nchans, nbits, **kw):
    from sigpyproc.readers import FilReader
    p = d / f"in_{tag}.fil"
    fixtures.write_fil(p, np.zeros(nchans * 2, dtype=np.int64), nchans, nbits, **kw)
    return FilReader(str(p)).header


def session_job(spec):
    from sigpyproc.readers import FilReader
    d = pool.worker_scratch()
    rng = np.random.default_rng(spec["seed"])
    out = []
    for si, s in enumerate(spec["sessions"]):
        nbits, c = s["nbits"], s["nchans"]
        # the source header may have ANY depth / channel count: the output's are given to prep_outfile
        src_nbits = s.get("src_nbits", nbits)
        # 'plain': the depth is changed by the nbits argument ALONE (no updates dict) - the path the library's own
        # requantize / to_tim / to_spec take; the sessions of a job run in ONE process, so whatever a call leaves behind
        # (a default argument, a cached header) is there for the next
        plain = bool(s.get("plain")) and src_nbits != nbits and (c * src_nbits) % 8 == 0
        # every third session starts from a header whose file name is a full archive path (well over 80 characters)
        long_kw = {"extra": {"rawdatafile": "/archive/2026/10/01/" + "deep/" * 24 + f"scan_{si:04d}.fil"}} if si % 3 == 1 else {}
        path = str(d / f"out_{spec['id']}_{si}.fil")
        ev = []
        top = min(2 ** nbits - 1, 1000) if nbits < 32 else 1000
        hl = 0
        try:
            hdr = _hdr(d, f"{spec['id']}_{si}", c if (src_nbits == nbits or plain) else 8, src_nbits, **long_kw)   # reads a well-formed file back
            if s.get("updates"):
                w = hdr.prep_outfile(path, updates={"nchans": c, "source": "requant"}, nbits=nbits)
            else:
                w = (hdr.prep_outfile(path) if (s.get("bare") and src_nbits == nbits) else hdr.prep_outfile(path, nbits=nbits)) if (src_nbits == nbits or plain) else \
                    hdr.prep_outfile(path, updates={"nchans": c}, nbits=nbits)
            hl = os.path.getsize(path)
            ev.append({"a": "prep", "size": hl})
            for (ns, dt) in s["writes"]:
                vals = rng.integers(0, (min(top, 255) if dt == "u1" else top) + 1, size=ns * c)   # representable in both
                if dt in ("U2", "F4") and int(vals.max(initial=0)) < 256 and vals.size:
                    vals[0] = min(top, 258)            # a value whose two bytes differ, so that a byte-swapped dump shows
                arr = vals.astype(DT[dt])
                try:
                    w.cwrite(arr)
                    oc = "ok"
                except Exception as exc:  # noqa: BLE001
                    oc = "refused"
                    msg = type(exc).__name__
                ev.append({"a": "cwrite", "dtype": dt, "n": int(ns * c), "outcome": oc, "size": os.path.getsize(path),
                           "vals": [int(x) for x in vals]})
            w.close()
            total = os.path.getsize(path) - hl
            try:
                f = FilReader(path)
                nsr = int(f.header.nsamples)
                rv = [int(x) for x in f.read_block(0, nsr).data.T.ravel()] if nsr > 0 else []
                f._file.close()
                ev.append({"a": "readback", "outcome": "ok", "ns": nsr, "vals": rv})
            except Exception as exc:  # noqa: BLE001
                ev.append({"a": "readback", "outcome": f"raise:{type(exc).__name__}", "ns": -1, "vals": []})
        except Exception as exc:  # noqa: BLE001
            ev.append({"a": "prep", "size": -1, "err": type(exc).__name__})
            hl = 0
        out.append({"hdr": {"hdrlen": hl, "nbits": nbits, "nchans": c}, "ev": ev, "cfg": dict(s, kind="session")})
    return out


def _meta(h_in, h_out):
    def rel(a, b, scale):
        if b == 0:
            return int(round((a - b) * scale))
        return int(round((a / b - 1.0) * scale))
    return {"tsamp_ppb": rel(float(h_out.tsamp), float(h_in.tsamp), 1e9),
            "tstart_us": int(round((float(h_out.tstart) - float(h_in.tstart)) * 86400e6)),
            "dm_ppm": rel(float(h_out.dm), float(h_in.dm), 1e6)}


def roundtrip_job(spec):
    from sigpyproc.block import FilterbankBlock
    from sigpyproc.fourierseries import FourierSeries
    from sigpyproc.readers import FilReader
    from sigpyproc.timeseries import TimeSeries
    d = pool.worker_scratch()
    rng = np.random.default_rng(spec["seed"])
    out = []
    for ri, r in enumerate(spec["trips"]):
        fmt, n = r["fmt"], r["n"]
        long_kw = {"extra": {"rawdatafile": "/archive/2026/10/01/" + "deep/" * 24 + f"scan_{ri:04d}.fil"}} if ri % 3 == 1 else {}
        stem = str(d / f"rt_{spec['id']}_{ri}")
        e = {"a": "roundtrip", "fmt": fmt, "n": n, "vals_in": [], "vals_out": [], "count_reader": -1, "tsamp_ppb": 0,
             "tstart_us": 0, "dm_ppm": 0}
        try:
            base = _hdr(d, f"rt{spec['id']}_{ri}", r.get("nchans", 1) if fmt == "block" else 4, 8,
                        tsamp=r["tsamp"], tstart=r["tstart"], **long_kw)
            if fmt in ("tim", "dat"):
                vals = rng.integers(-1000, 1000, size=n)
                h = base.new_header({"nchans": 1, "nsamples": n, "dm": r["dm"], "nbits": 32, "filename": stem + ".x"})
                ts = TimeSeries(vals.astype(np.float32), h)
                if fmt == "tim":
                    back = TimeSeries.from_tim(ts.to_tim(stem + ".tim"))
                else:
                    back = TimeSeries.from_dat(ts.to_dat(stem))
                e["vals_in"] = _compress(vals)
                b = np.asarray(back.data)
                e["vals_out"] = _compress(b)
                e["count_reader"] = int(back.header.nsamples)
                e.update(_meta(h, back.header))
            elif fmt in ("spec", "fft"):
                vals = rng.integers(-1000, 1000, size=2 * n)
                h = base.new_header({"nchans": 1, "nsamples": 2 * (n - 1), "dm": r["dm"], "nbits": 32, "filename": stem + ".x"})
                z = (vals[0::2] + 1j * vals[1::2]).astype(np.complex64)
                fs = FourierSeries(z, h)
                if fmt == "spec":
                    back = FourierSeries.from_spec(fs.to_spec(stem + ".spec"))
                else:
                    back = FourierSeries.from_fft(fs.to_fft(stem))
                bz = np.asarray(back.data)
                inter = np.empty(2 * bz.size)
                inter[0::2], inter[1::2] = bz.real, bz.imag
                e["vals_in"] = _compress(vals)
                e["vals_out"] = _compress(inter)
                e["n"] = 2 * n
                e["count_reader"] = 2 * int(bz.size)
                e.update(_meta(h, back.header))
            else:  # block
                c = r["nchans"]
                vals = rng.integers(0, 1000, size=(c, n))
                h = base.new_header({"nchans": c, "nsamples": n, "dm": r["dm"], "filename": stem + ".x"})
                blk = FilterbankBlock(vals.astype(np.float32), h)
                f = FilReader(blk.to_file(stem + ".fil"))
                nsr = int(f.header.nsamples)
                b = f.read_block(0, nsr).data if nsr > 0 else np.zeros((c, 0))
                e["vals_in"] = _compress(vals.ravel())
                e["vals_out"] = _compress(np.asarray(b).ravel())
                e["count_reader"] = nsr
                e.update(_meta(h, f.header))
                e["dm_ppm"] = 0  # a .fil block file has no DM clause beyond refdm; judged in C08
            e["outcome"] = "ok"
        except Exception as exc:  # noqa: BLE001
            e["outcome"] = f"raise:{type(exc).__name__}:{str(exc)[:80]}"
        out.append({"hdr": {"hdrlen": 0, "nbits": 32, "nchans": 1}, "ev": [e], "cfg": dict(r, kind="roundtrip")})
    return out


def run(v) -> None:
    rng = random.Random(seed())
    quick = v.tier == "quick"
    v.rule = ("sessions distinct by (depth, nchans, sequence of (samples, dtype)); round trips by (format, length, tsamp, "
              "tstart, dm); non-trivial = a session with a dtype different from the file's sample type, or any round trip")
    v.assumptions += ["values are representable at the declared depth (integers; 32-bit: |v| <= 1000)",
                      "metadata tolerances: tsamp 2 ppb, tstart 100 us, DM 2 ppm (.inf prints 12-15 digits)"]
    v.add_tlc(tlc.must_pass(tlc.run("MC_Writer", "MC_Writer_good.cfg", workers=4), "MC_Writer"), "MC_Writer good")
    tlc.must_fail(tlc.run("MC_Writer", "MC_Writer_ownwidth.cfg", workers=4), "own-width writer", "Width")
    sessions = []
    depth = 2 if quick else 3
    for nbits in (1, 2, 4, 8, 16, 32):
        for c in (CH[nbits][:2] if quick else CH[nbits]):
            seqs = []
            for k in range(1, depth + 1):
                for dts in itertools.product(DT, repeat=k):
                    seqs.append([(rng.choice([1, 2, 3]), dt) for dt in dts])
            rng.shuffle(seqs)
            for j, s in enumerate(seqs[: (12 if quick else 1000)]):
                sessions.append({"nbits": nbits, "nchans": c, "writes": s,
                                 "src_nbits": nbits if j % 3 == 0 else rng.choice([1, 2, 4, 8, 16, 32]), "updates": j % 4 == 1,
                                 "plain": j % 4 in (2, 3), "bare": j % 3 == 0 and j % 4 != 1 and j % 2 == 0})
    trips = []
    for fmt in ("tim", "dat", "spec", "fft", "block"):
        for n in ([1, 2, 7, 24, 125] if quick else [1, 2, 3, 5, 7, 8, 9, 24, 64, 125, 513, 1000, 4099]):
            for (tsamp, tstart, dm) in [(0.001, 50000.0, 0.0), (6.4e-5, 58000.123456789, 12.345), (1.0 / 3.0, 60000.5, 0.1)]:
                t = {"fmt": fmt, "n": n, "tsamp": tsamp, "tstart": tstart, "dm": dm}
                if fmt == "block":
                    t["nchans"] = rng.choice([1, 2, 4])
                trips.append(t)
    # sizes beyond the blocking thresholds a writer or reader may use internally (2^16 .. 2^19 values), not multiples of them
    for fmt, n, nch in ([("block", 5000, 64), ("tim", 300001, 1)] if quick else
                        [("block", 5000, 64), ("block", 20000, 16), ("block", 2049, 128), ("block", 100000, 3), ("tim", 300001, 1), ("dat", 270000, 1),
                         ("spec", 140001, 1), ("fft", 140001, 1)]):
        t = {"fmt": fmt, "n": n, "tsamp": 0.001, "tstart": 50000.0, "dm": 12.345}
        if fmt == "block":
            t["nchans"] = nch
        trips.append(t)
    sspecs = [{"id": i, "seed": seed() * 17 + i, "sessions": sessions[i::12]} for i in range(12)]
    tspecs = [{"id": i, "seed": seed() * 19 + i, "trips": trips[i::8]} for i in range(8)]
    traces = [t for r in pool.pmap(session_job, sspecs, workers=12) for t in r]
    traces += [t for r in pool.pmap(roundtrip_job, tspecs, workers=8) for t in r]
    native = {1: "u1", 2: "u1", 4: "u1", 8: "u1", 16: "u2", 32: "f4"}      # "U2"/"F4" (other byte order) are never native
    for t in traces:
        v.evaluations += 1
        c = t["cfg"]
        if c["kind"] == "roundtrip" or any(dt != native[c["nbits"]] for _, dt in c["writes"]):
            v.nontrivial.add(json.dumps(c, sort_keys=True))

    def on_reject(tr, pos):
        e = tr["ev"][pos - 1]
        c = dict(tr["cfg"])
        c["event_index"] = pos
        if e["a"] == "roundtrip":
            site = {"tim": "TimeSeries.to_tim/from_tim", "dat": "TimeSeries.to_dat/from_dat", "spec": "FourierSeries.to_spec/from_spec",
                    "fft": "FourierSeries.to_fft/from_fft", "block": "FilterbankBlock.to_file/FilReader"}[e["fmt"]]
            clause = "RoundTrip"
            obs = {k: (e[k][:12] if isinstance(e[k], list) else e[k]) for k in e}
        else:
            site = "FileWriter.cwrite" if e["a"] == "cwrite" else ("Header.prep_outfile" if e["a"] == "prep" else "FilReader(read back)")
            clause = {"cwrite": "ConvertOrRefuse", "prep": "HeaderFirst", "readback": "ReadBackIsWritten"}[e["a"]]
            obs = {k: (e[k][:12] if isinstance(e[k], list) else e[k]) for k in e}
            c["dtype"] = e.get("dtype", "")
        v.violation(clause, site, c, obs, "a step of Trace_Formats")
        return None

    tracecheck.validate_total("Trace_Formats", traces, on_reject, verdict=v, label="write/read-back histories", chunk=400)
    v.traces += len(traces)
    v.sample({"session": traces[0]["cfg"], "events": [{k: (e[k][:8] if isinstance(e[k], list) else e[k]) for k in e} for e in traces[0]["ev"]]})
    rt = [t for t in traces if t["cfg"]["kind"] == "roundtrip"]
    v.sample({"roundtrip": rt[0]["cfg"], "event": {k: (rt[0]["ev"][0][k][:8] if isinstance(rt[0]["ev"][0][k], list) else rt[0]["ev"][0][k])
                                                    for k in rt[0]["ev"][0]}})


def replay(v, path) -> None:
    print(open(path).read()[:1500])
    run(v)
