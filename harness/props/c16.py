"""C16 - RFI cleaning masks exactly the flagged channels and nothing else.

(M) MC_RFIMask: every order (with repetitions) of apply-ranges / apply-method / apply-function, up to 3 (4
    thorough) steps, over integer statistics vectors (all-equal, planted outliers, quadratic): the channel
    mask only grows (action property) and covers its three parts; Must <= May; a planted outlier is found,
    a constant vector flags nothing.  The outlier predicates (double-MAD with its two fallbacks; IQRM with
    edge-clamped lags and interpolated quartiles) are written exactly with bracketed constants.
(T) Trace_RFIMask: histories on real RFIMask objects (masks logged after every call, validated as steps of
    the machine with Must <= stats <= May), to_file/from_file round trips, and clean_rfi end to end at depths
    1,2,4,8,32 and several gulps: mask = union of its parts, user/custom parts as defined, cleaned file =
    DefMask of the input (parsed independently from disk).
"""
from __future__ import annotations

import json
import random

import numpy as np

from .. import fixtures, pool, tlc, tracecheck
from ..common import seed

GFAM = ["none", "first", "dilate", "all"]


def gfun(name):
    def g(mask):
        m = np.asarray(mask, dtype=bool)
        out = np.zeros_like(m)
        if name == "first":
            out[0] = True
        elif name == "dilate":
            out[1:] |= m[:-1]
            out[:-1] |= m[1:]
        elif name == "all":
            out[:] = True
        return out
    return g


def idx(mask):
    return [int(i) + 1 for i in np.nonzero(np.asarray(mask))[0]]


def _hdr(d, tag, C, fch1, foff):
    from sigpyproc.readers import FilReader
    p = d / f"c16_{tag}.fil"
    fixtures.write_fil(p, np.zeros(C * 2, dtype=np.int64), C, 8, fch1=fch1, foff=foff)
    return FilReader(str(p)).header


def obj_job(spec):
    from sigpyproc.core.rfi import RFIMask
    d = pool.worker_scratch()
    traces = []
    for hi, h in enumerate(spec["hists"]):
        C = h["C"]
        hdr = _hdr(d, f"{spec['id']}_{hi}", C, h["fch1"], h["foff"])
        vecs = {k: np.array(h[k], dtype=np.float64) for k in ("var", "skew", "kurt")}
        m = RFIMask(h["tn"] / h["td"], hdr, np.arange(C, dtype=np.float64), vecs["var"], vecs["skew"], vecs["kurt"],
                    np.ones(C), np.zeros(C))
        ev = []
        for op in h["ops"]:
            e = {"a": op[0], "L": [], "m": "mad", "tn": h["tn"], "td": h["td"], "g": "none", "same_arrays": True,
                 "same_threshold": True, "same_header": True}
            try:
                if op[0] == "ranges":
                    e["L"] = [[r[0], r[1]] for r in op[1]]
                    cf = np.asarray(m.header.chan_freqs)      # the numbers THIS mask object reports for its channels
                    # an endpoint "on channel k" is the very number the header reports for that channel (on a -0.1 MHz grid that is
                    # not the decimal the label suggests)
                    m.apply_mask([(float(cf[r[2]]) if len(r) > 2 and r[2] >= 0 else r[0] / 100.0,
                                   float(cf[r[3]]) if len(r) > 2 and r[3] >= 0 else r[1] / 100.0) for r in op[1]])
                elif op[0] == "method":
                    e["m"] = op[1]
                    m.apply_method(op[1])
                elif op[0] == "funcn":
                    e["g"] = op[1]
                    m.apply_funcn(gfun(op[1]))
                else:
                    f = str(d / f"mask_{spec['id']}_{hi}.h5")
                    m.to_file(f)
                    m2 = RFIMask.from_file(f)
                    arrs = ("chan_mean", "chan_var", "chan_skew", "chan_kurt", "chan_maxima", "chan_minima", "chan_mask",
                            "user_mask", "stats_mask", "custom_mask")
                    e["same_arrays"] = bool(all(np.array_equal(getattr(m, a), getattr(m2, a)) and
                                                getattr(m, a).dtype == getattr(m2, a).dtype for a in arrs))
                    e["same_threshold"] = bool(float(m2.threshold) == float(m.threshold))
                    hk = ("nchans", "foff", "fch1", "nbits", "tsamp", "tstart", "nsamples", "filename", "data_type", "source",
                          "telescope", "backend", "frame", "ibeam", "nbeams", "dm", "nifs")
                    e["same_header"] = bool(all(getattr(m.header, k) == getattr(m2.header, k) for k in hk))
                    m = m2 if op[1] else m          # continue with the loaded object half of the time
                e["outcome"] = "ok"
            except Exception as exc:  # noqa: BLE001
                e["outcome"] = f"raise:{type(exc).__name__}:{str(exc)[:60]}"
            e.update({"user": idx(m.user_mask), "stats": idx(m.stats_mask), "custom": idx(m.custom_mask), "chan": idx(m.chan_mask)})
            ev.append(e)
        labels = [int(round((h["fch1"] + c * h["foff"]) * 100)) for c in range(C)]
        traces.append({"hdr": {"nchans": C, "labels": labels, "var": h["var"], "skew": h["skew"], "kurt": h["kurt"],
                               "vals": [], "nbits": 8},
                       "ev": ev, "cfg": {k: h[k] for k in ("C", "fch1", "foff", "tn", "td", "ops", "var", "skew", "kurt")}})
    return traces


def clean_job(spec):
    from sigpyproc.readers import FilReader
    d = pool.worker_scratch()
    rng = np.random.default_rng(spec["seed"])
    traces = []
    for fi, f in enumerate(spec["files"]):
        N, C, nbits = f["N"], f["C"], f["nbits"]
        top = {1: 2, 2: 4, 4: 16, 8: 256, 32: 256}[nbits]
        data = rng.integers(0, top, size=(N, C), dtype=np.int64)
        for bad in f["noisy"]:                      # a channel with very different statistics
            data[:, bad] = (np.arange(N) % 2) * (top - 1)
        p = d / f"c16c_{spec['id']}_{fi}.fil"
        fixtures.write_fil(p, data.ravel(), C, nbits, fch1=float(f["fch1"]), foff=float(f["foff"]))
        labels = [int(round((f["fch1"] + c * f["foff"]) * 100)) for c in range(C)]
        ev = []
        for ci, call in enumerate(f["calls"]):
            fil = FilReader(str(p))
            out = str(d / f"c16o_{spec['id']}_{fi}_{ci}.fil")
            e = {"a": "clean", "L": call["L"], "m": call["m"], "tn": call["tn"], "td": call["td"], "g": call["g"],
                 "value": call["value"], "start": call["start"], "nsamps": call["nsamps"], "gulp": call["gulp"],
                 "same_arrays": True, "same_threshold": True, "same_header": True,
                 "user": [], "stats": [], "custom": [], "chan": [], "out": [], "out_nchans": 0, "out_datalen": 0}
            try:
                name, mask = fil.clean_rfi(method=call["m"], threshold=call["tn"] / call["td"],
                                           freq_mask=[(lo / 100.0, hi / 100.0) for lo, hi in call["L"]],
                                           custom_funcn=gfun(call["g"]), mask_value=call["value"], outfile_name=out,
                                           gulp=call["gulp"], start=call["start"], nsamps=call["nsamps"], quiet=True)
                raw = open(name, "rb").read()
                hd, hl = fixtures.parse_sigproc(raw)
                vals = fixtures.decode_values(raw[hl:], int(hd["nbits"]))
                e.update({"user": idx(mask.user_mask), "stats": idx(mask.stats_mask), "custom": idx(mask.custom_mask),
                          "chan": idx(mask.chan_mask), "out": [int(x) for x in vals] if np.all(vals == np.round(vals)) else [-1],
                          "out_nchans": int(hd["nchans"]), "out_datalen": len(raw) - hl, "outcome": "ok"})
            except Exception as exc:  # noqa: BLE001
                e["outcome"] = f"raise:{type(exc).__name__}:{str(exc)[:80]}"
            fil._file.close()
            ev.append(e)
        traces.append({"hdr": {"nchans": C, "labels": labels, "var": [0] * C, "skew": [0] * C, "kurt": [0] * C,
                               "vals": [int(x) for x in data.ravel()], "nbits": nbits},
                       "ev": ev, "cfg": {k: f[k] for k in ("N", "C", "nbits", "fch1", "foff", "noisy")}})
    return traces


def run(v) -> None:
    rng = random.Random(seed())
    quick = v.tier == "quick"
    v.rule = "histories distinct by (statistics vectors, threshold, op sequence) / clean calls by (file, parameters); non-trivial = >= 2 ops or a clean call"
    v.assumptions += ["statistics vectors are integers (outlier predicates exact up to the 1e-4 bracket of the normalising constants)",
                      "range endpoints are either strictly between channels / outside the band, or exactly the number the mask's own header reports for a channel (inclusive)",
                      "clean_rfi: explicit mask values representable at the file depth; the statistics part of its mask is only "
                      "required to be consistent (union, monotone), its values are checked at object level"]
    v.add_tlc(tlc.must_pass(tlc.run("MC_RFIMask", "MC_RFIMask_q.cfg" if quick else "MC_RFIMask.cfg", workers=14, timeout=3000),
                            "MC_RFIMask"), "MC_RFIMask")
    hists = []
    for _ in range(150 if quick else 5000):
        C = rng.choice([8, 12, 16])
        dy = rng.random() < 0.6
        fch1, foff = (rng.choice([100.0, 1400.0]), rng.choice([-2.0, -0.5, 1.0])) if dy else (1500.0, rng.choice([-0.1, 0.3]))

        def vec():
            kind = rng.choice(["equal", "one", "two", "rand", "ties", "offset"])
            base = [rng.randrange(20, 60) for _ in range(C)]
            if kind == "offset":       # a large common level with a spread of a few units and one clear outlier: relative spread ~1e-6
                base = [1_000_000 + rng.choice([-1, 0, 0, 1]) for _ in range(C)]
                base[rng.randrange(C)] += rng.choice([9, -12, 40])
                return base
            if kind == "equal":
                return [37] * C
            if kind == "one":
                base[rng.randrange(C)] = rng.choice([500, -400, 2000])
            elif kind == "two":
                base[rng.randrange(C)] = 900
                base[rng.randrange(C)] = -700
            elif kind == "ties":
                base = [rng.choice([10, 10, 10, 11, 40]) for _ in range(C)]
            return base
        labs = [fch1 + c * foff for c in range(C)]
        lo, hi = min(labs), max(labs)

        def rlist():
            k = rng.choice([0, 1, 2, 3])
            L = []
            for _ in range(k):
                if (not dy) and rng.random() < 0.5:  # endpoints exactly on channels of a grid that is not binary-exact: the header's own numbers
                    ka, kb = sorted(rng.sample(range(C), 2), key=lambda k: labs[k])
                    L.append([int(round(labs[ka] * 100)), int(round(labs[kb] * 100)), ka, kb])
                    continue
                if dy and rng.random() < 0.6:       # endpoints exactly on channels
                    a, b = sorted(rng.sample(labs, 2)) if C >= 2 else (labs[0], labs[0])
                else:                                # strictly between channels / outside the band
                    a = rng.choice(labs) + abs(foff) * rng.choice([0.5, -0.5, 1.5]) + (0 if dy else 0.0)
                    b = a + abs(foff) * rng.choice([0.0, 1.0, 3.0, 100.0])
                    if rng.random() < 0.15:
                        a, b = hi + 5, hi + 9
                L.append([int(round(a * 100)), int(round(b * 100))])
            return L
        ops = []
        for _ in range(rng.randrange(1, 7)):
            r = rng.random()
            if r < 0.3:
                ops.append(["ranges", rlist()])
            elif r < 0.6:
                ops.append(["method", rng.choice(["mad", "iqrm"])])
            elif r < 0.85:
                ops.append(["funcn", rng.choice(GFAM)])
            else:
                ops.append(["saveload", rng.random() < 0.5])
        tn, td = rng.choice([(3, 1), (5, 2), (1, 1), (6, 1)])
        hists.append({"C": C, "fch1": fch1, "foff": foff, "tn": tn, "td": td, "var": vec(), "skew": vec(), "kurt": vec(), "ops": ops})
    files = []
    for fi in range(10 if quick else 80):
        nbits = (1, 2, 4, 8, 32, 32, 8)[fi % 7] if fi < 7 else rng.choice([1, 2, 4, 8, 32])       # every depth in every run, float files twice
        C = rng.choice({1: [8, 16], 2: [8, 12], 4: [8, 10], 8: [8, 9, 12], 32: [8, 9]}[nbits])
        N = rng.randrange(16, 40)
        calls = []
        for _ in range(4 if quick else 8):
            start = rng.choice([0, 0, rng.randrange(0, N // 2)])
            nsamps = N - start if rng.random() < 0.6 else rng.randrange(8, N - start + 1)
            top = {1: 1, 2: 3, 4: 15, 8: 255, 32: 255}[nbits]
            labs = [100.0 - 2 * c for c in range(C)]
            L = [[int(labs[2] * 100), int(labs[1] * 100)]] if rng.random() < 0.5 else []
            # every fill value in turn (not drawn): on float files the one beyond a byte and the negative one come first
            calls.append({"m": rng.choice(["mad", "iqrm"]), "tn": rng.choice([3, 2]), "td": 1, "L": L, "g": rng.choice(GFAM[:3]),
                          "value": ([0, 1, top] + ([-2, 700] if nbits == 32 else []))[::-1][len(calls) % (5 if nbits == 32 else 3)], "gulp": rng.choice([1, 3, 7, N + 1]), "start": start, "nsamps": nsamps})
        files.append({"N": N, "C": C, "nbits": nbits, "fch1": 100, "foff": -2, "noisy": [rng.randrange(C)], "calls": calls})
    ospecs = [{"id": i, "hists": hists[i::12]} for i in range(12)]
    cspecs = [{"id": i, "seed": seed() * 37 + i, "files": files[i::6]} for i in range(6)]
    traces = [t for r in pool.pmap(obj_job, ospecs, workers=12) for t in r] + [t for r in pool.pmap(clean_job, cspecs, workers=6) for t in r]
    for t in traces:
        v.evaluations += 1
        if len(t["ev"]) >= 2 or t["ev"][0]["a"] == "clean":
            v.nontrivial.add(json.dumps(t["cfg"], sort_keys=True) + json.dumps([e.get("gulp", 0) for e in t["ev"]]))

    def on_reject(tr, pos):
        e = tr["ev"][pos - 1]
        cfg = dict(tr["cfg"], event_index=pos)
        if e["a"] == "clean":
            cfg.update({k: e[k] for k in ("m", "tn", "td", "L", "g", "value", "gulp", "start", "nsamps")})
            site, clause = "Filterbank.clean_rfi", ("CleanedFileIsMaskedInput" if e.get("outcome") == "ok" else "MustNotRaise")
            rest = dict(tr)
            rest["ev"] = tr["ev"][pos:]
        else:
            site = {"ranges": "RFIMask.apply_mask", "method": "RFIMask.apply_method", "funcn": "RFIMask.apply_funcn",
                    "saveload": "RFIMask.to_file/from_file"}[e["a"]]
            clause = {"ranges": "UserMaskIsClosedRanges", "method": "StatsMaskIsOutliers", "funcn": "CustomMaskAndUnion",
                      "saveload": "SaveLoadRoundTrip"}[e["a"]]
            rest = None
        v.violation(clause, site, cfg, {k: (e[k][:20] if isinstance(e[k], list) else e[k]) for k in e if k != "out"} |
                    {"out": e.get("out", [])[:16]}, "a step of Trace_RFIMask")
        return rest

    tracecheck.validate_total("Trace_RFIMask", traces, on_reject, verdict=v, label="RFIMask histories and clean_rfi calls", chunk=400,
                              timeout=3000)
    v.traces += len(traces)
    v.extra["clean_rfi_calls"] = sum(1 for t in traces for e in t["ev"] if e["a"] == "clean")
    v.sample({"cfg": traces[0]["cfg"], "events": [{k: e[k] for k in ("a", "L", "m", "g", "user", "stats", "custom", "chan")} for e in traces[0]["ev"]]})
    c = next(t for t in traces if t["ev"][0]["a"] == "clean")
    v.sample({"cfg": c["cfg"], "event": {k: (c["ev"][0][k][:12] if isinstance(c["ev"][0][k], list) else c["ev"][0][k]) for k in c["ev"][0]}})


def replay(v, path) -> None:
    print(open(path).read()[:1500])
    run(v)
