"""C01 - gulped reading delivers every requested sample exactly once, in order.

(M) ReadPlan: the property-level layer (all block decompositions C01 allows) satisfies Exact, InRange,
    Whole, PrefixOK, RejectEarly, MustReject, HalfGulpHonoured, NoStuck for every plan with N <= MaxN;
    the code-shaped layer of the working tree (KFixed) REFINES it (PROPERTY PSpec) and never fails;
    the arithmetic of the pinned commit (KOld) is refuted (negative control); witnesses are reachable.
(T) Trace_ReadPlan: executions of FilReader.read_plan on real single/multi-file sets at depths
    1..32 are accepted only as behaviours of the property-level layer, block contents recomputed by TLC
    from the model stream (Stream + Bits).
"""
from __future__ import annotations

import itertools
import json
import random

import numpy as np

from .. import fixtures, tlc, tracecheck
from ..common import scratch, seed

SITE = "FilReader.read_plan"
DEPTH_CH = {1: [8, 16], 2: [4, 8], 4: [2, 4], 8: [1, 2, 3], 16: [1, 2], 32: [1, 2]}


_PLAN_COUNTER = [0]


def record_plan(fil, gulp, start, nsamps, skip, maxblocks=10000):
    """Run read_plan and turn it into trace events.  A plan is a lazy iterator: every third plan is CREATED, then the reader is
    used for something else (a read_block elsewhere in the file), and only then iterated - what the plan delivers must not depend
    on where the shared file handle was left in between."""
    ev = []
    ny = 0
    _PLAN_COUNTER[0] += 1
    try:
        plan = fil.read_plan(gulp=gulp, start=start, nsamps=nsamps, skipback=skip, quiet=True)
        if _PLAN_COUNTER[0] % 3 == 0:
            try:
                n_all = int(fil.header.nsamples)
                fil.read_block((start + nsamps // 2 + 1) % max(n_all, 1), 1)
            except Exception:  # noqa: BLE001  (the disturbance itself is not under test here)
                pass
        import time as _time
        t_start = _time.time()
        for n, ii, data in plan:
            if _time.time() - t_start > 60:
                ev.append({"e": "fail", "exc": "DidNotTerminate", "after": ny})
                return ev
            a = np.asarray(data)
            if a.dtype.kind == "f" and not np.all(a == np.round(a)):
                vals = [-1]
            else:
                vals = [int(x) for x in a]
            ev.append({"e": "yield", "n": int(n), "ii": int(ii), "alen": int(a.size), "vals": vals})
            ny += 1
            if ny > maxblocks:
                ev.append({"e": "fail", "exc": "TooManyBlocks", "after": ny})
                return ev
        ev.append({"e": "done"})
    except ValueError as exc:
        ev.append({"e": "reject" if ny == 0 else "fail", "exc": "ValueError", "after": ny, "msg": str(exc)[:80]})
    except Exception as exc:  # noqa: BLE001
        ev.append({"e": "fail", "exc": type(exc).__name__, "after": ny, "msg": str(exc)[:80]})
    return ev


def make_set(d, name, n, c, nbits, split, rng, mode):
    data = fixtures.identity_data(n, c, nbits, rng, mode)
    names = fixtures.write_set(d, name, data, nbits, split, longname=(len(name) % 2 == 0))
    files = [list(open(f, "rb").read()[-(k * c * nbits // 8):]) if k else [] for f, k in zip(names, split)]
    return names, files, [int(x) for x in data.ravel()]


def splits_of(n, rng, k):
    if k == 1:
        return [n]
    cuts = sorted(rng.sample(range(1, n), k - 1)) if n > k - 1 else None
    if cuts is None:
        return [n]
    parts = [b - a for a, b in zip([0, *cuts], [*cuts, n])]
    return parts


def run(v) -> None:
    from sigpyproc.readers import FilReader
    rng = random.Random(seed())
    nrng = np.random.default_rng(seed())
    quick = v.tier == "quick"
    d = scratch() / "c01"
    d.mkdir(exist_ok=True)
    v.rule = ("plans distinct by (depth, nchans, split, gulp, start, nsamps, skip); non-trivial = accepted with >= 2 "
              "blocks, or rejected, or a range ending before the end of the set")
    v.assumptions += ["nsamps >= 1 (for an empty range C01's 'must reject' and 'must honour' clauses contradict)",
                      "32-bit samples are integer-valued floats", "TLC 1.8.0, CommunityModules Json"]
    # (M) ----------------------------------------------------------------------------------------------
    for cfg in ("MC_ReadPlan_prop.cfg", "MC_ReadPlan_fixed.cfg"):
        res = tlc.must_pass(tlc.run("ReadPlan", cfg if quick else cfg.replace(".cfg", "_big.cfg"), workers=8), cfg)
        v.add_tlc(res, cfg)
    tlc.must_fail(tlc.run("ReadPlan", "MC_ReadPlan_old.cfg", workers=8), "KOld must not refine the property layer")
    tlc.must_fail(tlc.run("ReadPlan", "MC_ReadPlan_WitnessMultiBlockSkip.cfg", workers=4), "witness", "WitnessMultiBlockSkip")
    tlc.must_fail(tlc.run("ReadPlan", "MC_ReadPlan_WitnessLargeSkipHonoured.cfg", workers=4), "witness",
                  "WitnessLargeSkipHonoured")

    # (T) ----------------------------------------------------------------------------------------------
    traces = []
    depths_q = [1, 8, 32]
    depths = depths_q if quick else [1, 2, 4, 8, 16, 32]
    maxn = 6 if quick else 9
    combo = 0
    sets = {}

    def get_set(n, c, nbits, k, mode):
        key = (n, c, nbits, k, mode)
        if key not in sets:
            split = splits_of(n, rng, k)
            names, files, vals = make_set(d, f"s{len(sets)}", n, c, nbits, split, nrng, mode)
            sets[key] = (names, files, vals, split, FilReader(names))
        return sets[key]

    def one(n, c, nbits, k, mode, gulp, start, nsamps, skip, kind):
        names, files, vals, split, fil = get_set(n, c, nbits, k, mode)
        ev = record_plan(fil, gulp, start, nsamps, skip)
        traces.append({"hdr": {"files": files, "nbits": nbits, "nchans": c, "vals": vals, "novals": False, "N": n, "gulp": gulp,
                               "start": start, "nsamps": nsamps, "skip": skip},
                       "ev": ev, "kind": kind,
                       "plan": {"nbits": nbits, "nchans": c, "split": split, "N": n, "gulp": gulp, "start": start,
                                "nsamps": nsamps, "skip": skip, "data": mode}})

    # exhaustive over (gulp, start, nsamps, skip) for every N <= maxn; depth/split/channels rotate per plan
    for n in range(1, maxn + 1):
        for gulp in range(1, n + 2):
            for start in range(0, n):
                for nsamps in range(1, n - start + 1):
                    for skip in range(0, min(n, gulp) + 1):
                        if quick and n < maxn and (gulp + start + nsamps + skip) % 3:
                            continue
                        combo += 1
                        nbits = depths[combo % len(depths)]
                        c = DEPTH_CH[nbits][(combo // 7) % len(DEPTH_CH[nbits])]
                        k = 1 + (combo // 3) % 3
                        mode = ("identity", "random", "runs")[combo % 3]
                        one(n, c, nbits, min(k, n), mode, gulp, start, nsamps, skip, "exhaustive")
    # random larger plans
    for _ in range(300 if quick else 20000):
        n = rng.randrange(8, 65)
        nbits = rng.choice([1, 2, 4, 8, 16, 32])
        c = rng.choice(DEPTH_CH[nbits])
        k = rng.choice([1, 2, 3])
        start = rng.randrange(0, n)
        nsamps = rng.randrange(1, n - start + 1)
        gulp = rng.choice([rng.randrange(1, n + 2), rng.randrange(1, max(2, nsamps // 2 + 1)), nsamps, nsamps + 1])
        g = min(gulp, nsamps)
        skip = rng.choice([0, 0, rng.randrange(0, g // 2 + 1), g // 2, rng.randrange(0, g + 2)])
        one(n, c, nbits, k, rng.choice(["identity", "random", "runs"]), gulp, start, nsamps, skip, "random")
    for s in sets.values():
        s[4]._file.close()

    for t in traces:
        v.evaluations += 1
        p = t["plan"]
        ny = sum(1 for e in t["ev"] if e["e"] == "yield")
        if ny >= 2 or t["ev"][-1]["e"] != "done" or p["start"] + p["nsamps"] < p["N"]:
            v.nontrivial.add(json.dumps(p, sort_keys=True))

    def on_reject(tr, pos):
        e = tr["ev"][pos - 1]
        p = dict(tr["plan"])
        g = min(p["gulp"], p["nsamps"])
        regime = "skip>=g" if p["skip"] >= g else ("2skip<=g" if 2 * p["skip"] <= g else "g/2<skip<g")
        clause = {"reject": "RejectOnlyWhenAllowed", "yield": "BlockMatchesStream", "done": "DoneOnlyWhenComplete",
                  "fail": "NoFailureAfterAccept"}[e["e"]]
        if e["e"] == "fail" and e.get("after", 0) == 0:
            clause = "RejectIsValueError"
        p["regime"] = regime
        p["event_index"] = pos
        v.violation(clause, SITE, p, {k: e[k] for k in e if k != "vals"} | ({"vals": e["vals"][:24]} if "vals" in e else {}),
                    "a step of ReadPlan's property-level layer")
        return None  # a plan that left the specification cannot be resynchronised

    tracecheck.validate_total("Trace_ReadPlan", traces, on_reject, verdict=v, label="read_plan executions", chunk=1500)
    v.traces += len(traces)
    if not quick:
        from .. import suite_traces
        v.traces += suite_traces.run(v)
    multi = [t for t in traces if sum(1 for e in t["ev"] if e["e"] == "yield") >= 2 and t["plan"]["skip"] > 0]
    for t in (multi[:1] + traces[:1]):
        v.sample({"plan": t["plan"], "events": [{k: e[k] for k in e if k != "vals"} | {"vals": e.get("vals", [])[:12]}
                                                 for e in t["ev"]]})
    v.extra["events_validated"] = sum(len(t["ev"]) for t in traces)
    v.extra["plans_multi_block_with_skipback"] = len(multi)
    v.exhaustive = False


def replay(v, path) -> None:
    from sigpyproc.readers import FilReader
    data = json.loads(open(path).read())
    rng = np.random.default_rng(seed())
    d = scratch() / "c01r"
    d.mkdir(exist_ok=True)
    for i, case in enumerate(data["cases"][:5]):
        p = case["cfg"]
        names, files, vals = make_set(d, f"r{i}", p["N"], p["nchans"], p["nbits"], p["split"], rng, p.get("data", "identity"))
        ev = record_plan(FilReader(names), p["gulp"], p["start"], p["nsamps"], p["skip"])
        print("replayed plan", p, "->", [{k: e[k] for k in e if k != "vals"} for e in ev])
    run(v)
