"""C19 - parallel kernels give the same answer for every thread count and schedule.

(M) MC_ParKernels: all interleavings of a read-modify-write program parallelised over its owner axis are
    deterministic and 'Owned'; the same sums parallelised over the wrong axis lose updates (refuted).
(T, access) every parallel kernel's own Python definition (.py_func - the source numba compiles) is run on
    tiny shapes with logging array proxies, a recording prange and a numpy shim for internally allocated
    outputs; the recorded per-iteration access lists become the program of Trace_ParKernels: TLC checks
    Owned and explores EVERY interleaving of the iterations against the sequential result.
(T, outcomes) the compiled kernels run on exact-arithmetic inputs for thread counts 1..16 x chunk sizes x
    repetitions x shapes from 1x1 to 257x33; every digest must equal the digest of the sequential
    evaluation of the Python definition (moments kernels, whose divisions are not exact: of the 1-thread run).
"""
from __future__ import annotations

import json
import random
import zlib

import numpy as np

from .. import tlc, tracecheck
from ..common import seed

KERNELS = ["extract_tim", "extract_bpass", "mask_channels", "dedisperse", "subband", "remove_zerodm", "invert_freq",
           "compute_online_moments", "compute_online_moments_basic", "downsample_1d_mean", "downsample_2d_mean_flat"]


# ------------------------------------------------------------------ access recording -----------------
class Rec:
    cur = None
    its: dict = {}

    @classmethod
    def log(cls, k, name, i):
        if cls.cur is not None:
            cls.its.setdefault(cls.cur, []).append({"k": k, "a": name, "i": int(i)})


def rec_range(*a):
    for i in range(*a):
        Rec.cur = i
        yield i
    Rec.cur = None


class Arr:
    def __init__(self, name, data):
        self.name, self.d = name, np.asarray(data)
        self._ix = np.arange(self.d.size).reshape(self.d.shape)

    size = property(lambda s: s.d.size)
    shape = property(lambda s: s.d.shape)
    dtype = property(lambda s: s.d.dtype)
    ndim = property(lambda s: s.d.ndim)

    def __len__(self):
        return len(self.d)

    def _log(self, k, idx):
        for i in np.atleast_1d(self._ix[idx]).ravel():
            Rec.log(k, self.name, i)

    def __getitem__(self, idx):
        self._log("R", idx)
        return self.d[idx]

    def __setitem__(self, idx, val):
        self._log("W", idx)
        self.d[idx] = val


class MomRow:
    F = ["count", "m1", "m2", "m3", "m4", "min", "max"]

    def __init__(self, parent, i):
        self.p, self.i = parent, i

    def __getitem__(self, f):
        Rec.log("R", self.p.name, self.i * 7 + self.F.index(f))
        return self.p.d[self.i][f]

    def __setitem__(self, f, val):
        Rec.log("W", self.p.name, self.i * 7 + self.F.index(f))
        self.p.d[self.i][f] = val


class MomArr:
    def __init__(self, name, data):
        self.name, self.d = name, data

    shape = property(lambda s: s.d.shape)

    def __getitem__(self, i):
        return MomRow(self, int(i))


class NpShim:
    """numpy stand-in for the kernels module: arrays the kernel allocates for its OUTPUT become proxies."""

    def __getattr__(self, k):
        return getattr(np, k)

    @staticmethod
    def empty(shape, dtype=float):
        return Arr("out", np.zeros(shape, dtype=dtype))

    @staticmethod
    def empty_like(a):
        return Arr("out", np.zeros_like(a.d if isinstance(a, Arr) else a))

    @staticmethod
    def sum(a, *k, **kw):
        return np.sum(a, *k, **kw)


def make_args(name, nch, ns, rng, proxy):
    """Arguments for one kernel on an (ns samples x nch channels) block.  proxy=True wraps arrays for logging."""
    from sigpyproc.core import kernels
    P = (lambda n, a: Arr(n, a)) if proxy else (lambda n, a: a)
    u8 = rng.integers(0, 200, size=ns * nch).astype(np.uint8)
    f4 = rng.integers(0, 200, size=ns * nch).astype(np.float32)
    md = min(2, max(ns - 1, 0))
    delays = (np.arange(nch) * md // max(nch - 1, 1)).astype(np.int32)
    if name == "extract_tim":
        return [P("in", u8), P("out", np.zeros(ns + 3, np.float32)), nch, ns, 2], 1
    if name == "extract_bpass":
        return [P("in", u8), P("out", np.zeros(nch, np.float32)), nch, ns], 1
    if name == "mask_channels":
        mask = (np.arange(nch) % 2 == 0)
        return [P("data", u8.copy()), P("mask", mask), np.uint8(7), nch, ns], 0
    if name == "dedisperse":
        return [P("in", u8), P("out", np.zeros(max(ns - md, 0) + 2, np.float32)), P("delays", delays), md, nch, ns, 1], 1
    if name == "subband":
        nsub = 2 if nch % 2 == 0 else 1
        c2s = (np.arange(nch, dtype=np.int32) // (nch // nsub)).astype(np.int32)
        return [P("in", u8), P("out", np.zeros(max(ns - md, 0) * nsub + 1, np.float32)), P("delays", delays), P("c2s", c2s), md, nch, nsub, ns], 1
    if name == "remove_zerodm":
        bp = np.full(nch, 8.0, np.float32)
        cw = np.full(nch, 0.25, np.float32)          # dyadic weights: exact arithmetic
        return [P("in", f4), P("out", np.zeros(ns * nch, np.float32)), P("bpass", bp), P("chanwts", cw), nch, ns], 1
    if name == "invert_freq":
        return [P("in", u8), nch, ns], -1
    if name in ("compute_online_moments", "compute_online_moments_basic"):
        mom = np.zeros(nch, dtype=kernels.moments_dtype)
        return [P("in", f4), (MomArr("moments", mom) if proxy else mom), 0], 1
    if name == "downsample_1d_mean":
        return [P("in", f4), 2], -1
    if name == "downsample_2d_mean_flat":
        return [P("in", f4), 2 if ns >= 2 else 1, 2 if nch % 2 == 0 else 1, ns, nch], -1
    raise KeyError(name)


def record_program(name, nch, ns, rng):
    from sigpyproc.core import kernels
    fn = getattr(kernels, name).py_func
    args, _ = make_args(name, nch, ns, rng, True)
    Rec.its, Rec.cur = {}, None
    old_prange, old_np = kernels.prange, kernels.np
    kernels.prange, kernels.np = rec_range, NpShim()
    try:
        fn(*args)
    finally:
        kernels.prange, kernels.np = old_prange, old_np
    prog = [Rec.its[k] for k in sorted(Rec.its)]
    return [it for it in prog if it]


def result_of(out_pos, args, ret):
    r = ret if out_pos == -1 else args[out_pos]
    return np.ascontiguousarray(r)


def digest(a):
    return int(zlib.crc32(np.ascontiguousarray(a).tobytes()) & 0x7FFFFFFF)


def run(v) -> None:
    import numba
    from sigpyproc.core import kernels
    rng = random.Random(seed())
    quick = v.tier == "quick"
    v.rule = "access programs distinct by (kernel, shape); outcome runs by (kernel, shape, threads, chunk, repetition); non-trivial = more iterations than 1"
    v.assumptions += ["all interleavings are enumerated on the model bound to the recorded access lists; machine runs are samples of the OS schedule",
                      "moments kernels: divisions are not exact, so their digests are compared with the 1-thread compiled run, not with py_func",
                      "the recording harness replaces kernels.prange / kernels.np only while a py_func runs"]
    v.add_tlc(tlc.must_pass(tlc.run("MC_ParKernels", "MC_ParKernels_owner.cfg", workers=4), "owner-axis program"), "MC_ParKernels_owner")
    tlc.must_fail(tlc.run("MC_ParKernels", "MC_ParKernels_wrong.cfg", workers=4), "wrong-axis program", "Deterministic")
    traces = []
    # ---- access programs on tiny shapes --------------------------------------------------------------
    nrng = np.random.default_rng(seed())
    for name in KERNELS:
        for (nch, ns) in ([(2, 3), (3, 2)] if quick else [(2, 3), (3, 2), (1, 1), (2, 4), (4, 2)]):
            try:
                prog = record_program(name, nch, ns, nrng)
                oc = "ok"
            except Exception as exc:  # noqa: BLE001
                prog, oc = [], f"raise:{type(exc).__name__}:{str(exc)[:80]}"
            if oc != "ok":
                from ..common import MachineryFailure
                raise MachineryFailure(f"could not record the access list of {name} {nch}x{ns}: {oc}")
            # keep the interleaving space small: at most 3 iterations (all share the structure), events as recorded
            prog = prog[:3]
            traces.append({"hdr": {"kind": "access", "prog": prog, "reference": 0}, "ev": [{"digest": 0, "outcome": "ok"}],
                           "cfg": {"kernel": name, "nch": nch, "ns": ns, "iterations": len(prog), "events": [len(p) for p in prog]}})
    # ---- outcomes of the compiled kernels --------------------------------------------------------------
    # few channels x many samples: a kernel that re-blocks its work by the thread count then has long per-thread partial sums
    shapes = [(1, 1), (2, 3), (4, 16), (3, 100), (33, 257), (2, 1500), (3, 2500)] if quick else [(1, 1), (2, 3), (3, 7), (4, 16), (3, 100), (2, 40), (8, 64), (33, 257), (16, 1000), (5, 2000), (2, 1500), (3, 2500), (4, 5000), (2, 70001)]
    threads = [1, 3, 16] if quick else list(range(1, 17))
    chunks = [0, 1] if quick else [0, 1, 2, 7]
    reps = 3 if quick else 30
    maxt = numba.config.NUMBA_NUM_THREADS
    for name in KERNELS:
        cname = {"downsample_1d_mean": "downsample_1d_mean_parallel", "downsample_2d_mean_flat": "downsample_2d_mean_parallel"}.get(name, name)
        cfn = getattr(kernels, cname)
        pfn = getattr(kernels, name).py_func
        for (nch, ns) in shapes:
            s0 = seed() * 1009 + nch * 31 + ns
            args, pos = make_args(name, nch, ns, np.random.default_rng(s0), False)
            ref = digest(result_of(pos, args, pfn(*args)))
            if name.startswith("compute_online_moments"):
                numba.set_num_threads(1)
                a1, p1 = make_args(name, nch, ns, np.random.default_rng(s0), False)
                ref = digest(result_of(p1, a1, cfn(*a1)))
            ev = []
            for t in threads:
                numba.set_num_threads(min(t, maxt))
                for ch in chunks:
                    for r in range(reps):
                        a2, p2 = make_args(name, nch, ns, np.random.default_rng(s0), False)
                        try:
                            with numba.parallel_chunksize(ch):
                                out = cfn(*a2)
                            ev.append({"digest": digest(result_of(p2, a2, out)), "outcome": "ok", "threads": t, "chunk": ch, "rep": r})
                        except Exception as exc:  # noqa: BLE001
                            ev.append({"digest": -1, "outcome": f"raise:{type(exc).__name__}", "threads": t, "chunk": ch, "rep": r})
            traces.append({"hdr": {"kind": "outcomes", "prog": [], "reference": ref}, "ev": ev,
                           "cfg": {"kernel": cname, "nch": nch, "ns": ns}})
    numba.set_num_threads(maxt)
    slim = [{"hdr": t["hdr"], "ev": [{"digest": e["digest"], "outcome": e["outcome"]} for e in t["ev"]], "full": t} for t in traces]
    for t in traces:
        v.evaluations += len(t["ev"])
        if t["hdr"]["kind"] == "access" and t["cfg"]["iterations"] > 1:
            v.nontrivial.add(json.dumps(t["cfg"]))
        elif t["hdr"]["kind"] == "outcomes" and t["cfg"]["nch"] * t["cfg"]["ns"] > 1:
            for e in t["ev"]:
                v.nontrivial.add((t["cfg"]["kernel"], t["cfg"]["nch"], t["cfg"]["ns"], e["threads"], e["chunk"], e["rep"]))
    for tr, pos in tracecheck.validate("Trace_ParKernels", slim, verdict=v, label="access programs and outcome runs", chunk=200, timeout=3000):
        t = tr["full"]
        cfg = dict(t["cfg"])
        if t["hdr"]["kind"] == "access":
            v.violation("OwnedAndDeterministicUnderEveryInterleaving", f"kernels.{cfg['kernel']}", cfg,
                        {"program": t["hdr"]["prog"][:2]}, "ParKernels!Owned / SeqResult (Trace_ParKernels!Finish)")
        else:
            e = t["ev"][abs(pos) - 1]
            cfg.update({k: e[k] for k in ("threads", "chunk", "rep")})
            v.violation("BitIdenticalAcrossSchedules", f"kernels.{cfg['kernel']}", cfg, {"digest": e["digest"], "outcome": e["outcome"]},
                        {"reference": t["hdr"]["reference"]})
    v.traces += len(traces)
    a = next(t for t in traces if t["hdr"]["kind"] == "access" and t["cfg"]["kernel"] == "extract_bpass")
    v.sample({"cfg": a["cfg"], "program": a["hdr"]["prog"]})
    o = next(t for t in traces if t["hdr"]["kind"] == "outcomes")
    v.sample({"cfg": o["cfg"], "reference": o["hdr"]["reference"], "runs": o["ev"][:3]})
    v.extra["access_programs"] = sum(1 for t in traces if t["hdr"]["kind"] == "access")
    v.extra["outcome_runs"] = sum(len(t["ev"]) for t in traces if t["hdr"]["kind"] == "outcomes")


def replay(v, path) -> None:
    print(open(path).read()[:1500])
    run(v)
