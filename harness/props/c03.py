"""C03 - bit packing and unpacking are exact inverses at every depth and bit order.

(M) MC_Bits: every byte x depth x order, seven invariants on the definitions.
(R) Gen_Bits: TLC exports the complete 1536-row unpack table; it is replayed into bits.unpack /
    bits.pack and the twelve kernels.
(T) Trace_Bits: recorded calls (every byte value at every position of arrays of length 0..N, with
    and without caller buffers, clean and dirty, all accepted order spellings, error cases) are
    validated by TLC against Bits!Unpack / Bits!Pack / Bits!CallOutcome.
"""
from __future__ import annotations

import itertools
import json
import random

import numpy as np

from .. import tlc, tracecheck
from ..common import scratch, seed

SITE_U = "sigpyproc.io.bits.unpack"
SITE_P = "sigpyproc.io.bits.pack"


_HELD: list = []          # (array returned by an earlier call, copy of its contents at return time)


def _outcome(fn):
    try:
        return "ok", fn()
    except ValueError:
        return "ValueError", None
    except Exception as exc:  # noqa: BLE001
        return f"other:{type(exc).__name__}", None


def _ev(api, nbits, order, inp, outbuf_mode, *, dtype=np.uint8, outsize=None, kernel=False, misalign=0):
    from sigpyproc.core import kernels
    from sigpyproc.io import bits
    arr = np.array(inp, dtype=dtype)
    if misalign:          # the same values in a buffer that does not start on an 8-byte boundary (a slice of a larger array)
        base = np.zeros(arr.size + misalign, dtype=dtype)
        base[misalign:] = arr
        arr = base[misalign:]
    fact = 8 // nbits if nbits in (1, 2, 4) else 1
    if outbuf_mode == "none":
        buf = None
        osz = -1
    else:
        n = outsize if outsize is not None else (arr.size * fact if api == "unpack" else arr.size // fact)
        buf = np.zeros(n, dtype=np.uint8) if outbuf_mode == "zero" else np.full(n, 0xFF, dtype=np.uint8)
        osz = n
    if kernel:
        name = f"{api}{nbits}_8_{'big' if order[0] == 'b' else 'little'}"
        fn = getattr(kernels, name)

        def call():
            fn(arr, buf)
            return buf
    else:
        f = bits.unpack if api == "unpack" else bits.pack

        def call():
            return f(arr, nbits, buf, bitorder=order)
    inp_before = arr.copy()
    oc, out = _outcome(call)
    # results are values, not views of library-owned scratch space: every array returned earlier (and still held by its caller)
    # must be unchanged by this call, and so must this call's input
    stale = [k for k, (ref, snap) in enumerate(_HELD) if not np.array_equal(ref, snap)]
    intact = bool(not stale and np.array_equal(arr, inp_before))
    if stale:
        for k in sorted(stale, reverse=True):
            del _HELD[k]
    if out is not None and out is not buf:
        _HELD.append((out, out.copy()))
        del _HELD[:-6]
    same_buf = bool(out is buf) if (buf is not None and out is not None) else True
    return {
        "api": api, "dtypeOk": bool(arr.dtype == np.uint8), "nbits": int(nbits),
        "orderHead": (order[0] if order else ""), "insize": int(arr.size), "outsize": int(osz),
        "outcome": oc, "inp": [int(x) for x in arr.astype(np.int64)] if arr.dtype.kind in "ui" else [0] * arr.size,
        "out": [int(x) for x in out] if out is not None else [],
        "site": ("kernel" if kernel else "api"), "buf": outbuf_mode, "order": order, "sameBuf": same_buf,
        "outDtypeOk": bool(out.dtype == np.uint8) if out is not None else True, "intact": intact,
    }


def run(v) -> None:
    from sigpyproc.io import bits  # noqa: F401 - import (and compile) before timing anything
    rng = random.Random(seed())
    quick = v.tier == "quick"
    maxlen = 3 if quick else 8
    v.rule = ("calls distinct by (api, site, nbits, order spelling, buffer mode, input bytes); non-trivial = "
              "outcome ok with non-empty input, or an error case")
    v.assumptions += ["TLC 1.8.0 / SANY / CommunityModules Json", "numpy array construction in the driver",
                      "pack inputs are multiples of 8/nbits long (the property does not define ragged tails)"]

    # (M) -----------------------------------------------------------------------------------
    res = tlc.must_pass(tlc.run("MC_Bits", "MC_Bits.cfg", workers=4), "MC_Bits")
    v.add_tlc(res, "MC_Bits exhaustive 256x3x2")

    # (R) spec -> code: complete table --------------------------------------------------------
    out = scratch() / "bits_table.json"
    res = tlc.must_pass(tlc.run("Gen_Bits", "Gen_Bits.cfg", workers=1, env={"OUT_FILE": str(out)}), "Gen_Bits")
    v.add_tlc(res, "Gen_Bits table export")
    rows = json.loads(out.read_text())["rows"]
    if len(rows) != 1536:
        from ..common import MachineryFailure
        raise MachineryFailure(f"Gen_Bits exported {len(rows)} rows, expected 1536")
    from sigpyproc.core import kernels
    from sigpyproc.io import bits
    for r in rows:
        nb, order, byte, fields = r["nbits"], r["order"], r["byte"], r["fields"]
        v.evaluations += 1
        v.traces += 1
        v.nontrivial.add(("R", nb, order, byte))
        got = bits.unpack(np.array([byte], dtype=np.uint8), nb, bitorder=order)
        if [int(x) for x in got] != fields:
            v.violation("UnpackTable", SITE_U, {"nbits": nb, "order": order, "byte": byte},
                        [int(x) for x in got], fields)
        got = bits.pack(np.array(fields, dtype=np.uint8), nb, bitorder=order)
        if [int(x) for x in got] != [byte]:
            v.violation("PackTable", SITE_P, {"nbits": nb, "order": order, "fields": fields},
                        [int(x) for x in got], [byte])
        for api in ("unpack", "pack"):
            k = getattr(kernels, f"{api}{nb}_8_{order}")
            if api == "unpack":
                o = np.full(len(fields), 0xFF, dtype=np.uint8)
                k(np.array([byte], dtype=np.uint8), o)
                exp = fields
            else:
                o = np.full(1, 0xFF, dtype=np.uint8)
                k(np.array(fields, dtype=np.uint8), o)
                exp = [byte]
            if [int(x) for x in o] != exp:
                v.violation(f"Kernel{api.capitalize()}Table", f"kernels.{api}{nb}_8_{order}",
                            {"nbits": nb, "order": order, "byte": byte}, [int(x) for x in o], exp)
    # the vectorised 1-bit packer (kernels.pack1_8_vect): whole table at once, both byte orders
    for order in ("big", "little"):
        want = [r for r in rows if r["nbits"] == 1 and r["order"] == order]
        want.sort(key=lambda r: r["byte"])
        flat = np.array([f for r in want for f in r["fields"]], dtype=np.uint8)
        o = np.full(256, 0xFF, dtype=np.uint8)
        try:
            kernels.pack1_8_vect(flat, o, big_endian=(order == "big"))
            got = [int(x) for x in o]
        except Exception as exc:  # noqa: BLE001
            got = [f"raise:{type(exc).__name__}"]
        v.evaluations += 1
        if got != list(range(256)):
            bad = next((i for i, g in enumerate(got) if g != i), 0)
            v.violation("KernelPackTable", "kernels.pack1_8_vect", {"nbits": 1, "order": order, "byte": bad}, got[bad:bad + 4], [bad])
    # (R) at scale: the same TLC table applied as a lookup to inputs beyond any internal blocking threshold (4 MiB + 3 bytes, a
    # non-zero last byte, a dirty caller buffer) - kernels that split large inputs into blocks must get the seams and the tail right
    big_n = 2 ** 22 + 3
    nrng = np.random.default_rng(seed())
    for nb in ((1, 4) if quick else (1, 2, 4)):
        fact = 8 // nb
        for order in ("big", "little"):
            lut = np.zeros((256, fact), dtype=np.uint8)
            for r in rows:
                if r["nbits"] == nb and r["order"] == order:
                    lut[r["byte"]] = r["fields"]
            raw = nrng.integers(0, 256, size=big_n, dtype=np.uint8)
            raw[-1] = 0xA7
            want = lut[raw].ravel()
            for mode in ("none", "dirty"):
                buf = None if mode == "none" else np.full(big_n * fact, 0xFF, dtype=np.uint8)
                oc, got = _outcome(lambda: bits.unpack(raw, nb, buf, bitorder=order))
                v.evaluations += 1
                if oc != "ok" or got.shape != want.shape or not np.array_equal(got, want):
                    bad = int(np.flatnonzero(got != want)[0]) if (oc == "ok" and got.shape == want.shape) else -1
                    v.violation("UnpackTableAtScale", SITE_U, {"nbits": nb, "order": order, "nbytes": big_n, "buf": mode},
                                {"outcome": oc, "first_bad_index": bad, "of": int(want.size)}, "table lookup of every byte")
                buf = None if mode == "none" else np.full(big_n, 0xFF, dtype=np.uint8)
                oc, got = _outcome(lambda: bits.pack(want, nb, buf, bitorder=order))
                v.evaluations += 1
                if oc != "ok" or got.shape != raw.shape or not np.array_equal(got, raw):
                    bad = int(np.flatnonzero(got != raw)[0]) if (oc == "ok" and got.shape == raw.shape) else -1
                    v.violation("PackTableAtScale", SITE_P, {"nbits": nb, "order": order, "nbytes": big_n, "buf": mode},
                                {"outcome": oc, "first_bad_index": bad, "of": big_n}, "inverse table lookup")
    v.sample({"R_row": rows[27]})

    # (T) code -> spec -------------------------------------------------------------------------
    events = []
    spellings = {"big": ["big", "b", "bigendian"], "little": ["little", "l", "lsb"]}
    for nb in (1, 2, 4):
        fact = 8 // nb
        for order in ("big", "little"):
            # every byte value at every position of arrays of length 1..maxlen; plus the empty array
            for mode in ("none", "zero", "dirty"):
                events.append(_ev("unpack", nb, order, [], mode))
                events.append(_ev("pack", nb, order, [], mode))
            for n in range(1, maxlen + 1):
                for p in range(n):
                    fill = [rng.randrange(256) for _ in range(n)]
                    for val in range(256):
                        arr = list(fill)
                        arr[p] = val
                        mode = ("none", "zero", "dirty")[(val + p + n) % 3]
                        sp = spellings[order][(val + n) % 3]
                        events.append(_ev("unpack", nb, sp, arr, mode, kernel=False))
                        if (val + p) % 4 == 0:
                            events.append(_ev("unpack", nb, order, arr, "dirty", kernel=True))
            # pack: every field tuple at every group position
            tuples = list(itertools.product(range(2 ** nb), repeat=fact))
            for n in range(1, maxlen + 1):
                for p in range(n):
                    fill = [rng.randrange(2 ** nb) for _ in range(n * fact)]
                    for ti, tup in enumerate(tuples):
                        arr = list(fill)
                        arr[p * fact:(p + 1) * fact] = tup
                        mode = ("none", "zero", "dirty")[(ti + p + n) % 3]
                        sp = spellings[order][(ti + n) % 3]
                        events.append(_ev("pack", nb, sp, arr, mode))
                        if (ti + p) % 4 == 0:
                            events.append(_ev("pack", nb, order, arr, "dirty", kernel=True))
    # all-zero inputs into dirty caller buffers (a "nothing to do" shortcut must still write the zeros), every small length
    for nb in (1, 2, 4):
        fact = 8 // nb
        for order in ("big", "little"):
            for n in (1, 2, 3, 5, 8, 16, 17, 33):
                events.append(_ev("unpack", nb, order, [0] * n, "dirty"))
                events.append(_ev("unpack", nb, order, [0] * n, "none"))
                events.append(_ev("pack", nb, order, [0] * (n * fact), "dirty"))
                events.append(_ev("unpack", nb, order, [0] * n, "dirty", kernel=True))
                events.append(_ev("pack", nb, order, [0] * (n * fact), "dirty", kernel=True))
    # long arrays: lengths around every power of two and multiple of 16 up to 1 kB, random contents, aligned and not -
    # vectorised / batched kernels have a main loop and a remainder loop, and the seam is where they go wrong
    longs = sorted({a + b for a in (16, 32, 48, 64, 96, 128, 256, 512, 1024) for b in (-1, 0, 1, 7)} | {9, 13, 23, 40, 100, 333})
    if quick:
        longs = [n for n in longs if n <= 130] + [257, 1031]
    for nb in (1, 2, 4):
        fact = 8 // nb
        for order in ("big", "little"):
            for n in longs:
                mis = (n % 3)
                mode = ("none", "zero", "dirty")[n % 3]
                raw = [rng.randrange(256) for _ in range(n)]
                raw[-1] = rng.randrange(1, 256)                   # a non-zero tail
                events.append(_ev("unpack", nb, order, raw, mode, misalign=mis))
                events.append(_ev("unpack", nb, order, raw, "dirty", kernel=True))
                vals = [rng.randrange(2 ** nb) for _ in range(n * fact)]
                vals[-fact:] = [2 ** nb - 1] * fact
                events.append(_ev("pack", nb, order, vals, mode, misalign=mis))
                events.append(_ev("pack", nb, order, vals, ("none", "zero", "dirty")[(n + 1) % 3]))
                events.append(_ev("pack", nb, order, vals, "dirty", kernel=True))
    # error cases (Call action): wrong dtype, depth, order, buffer size
    for api in ("unpack", "pack"):
        for dt in (np.uint16, np.int8, np.float32, np.int64):
            events.append(_ev(api, 2, "big", [1, 2, 3, 0], "none", dtype=dt))
        for nb in (0, 3, 8, 16, 32):
            events.append(_ev(api, nb, "big", [1, 2, 3, 0], "none"))
        for od in ("", "x", "Big", "LITTLE", "msb", "0"):
            events.append(_ev(api, 4, od, [1, 2, 3, 0], "none"))
        for nb in (1, 2, 4):
            fact = 8 // nb
            good = 8 * fact if api == "unpack" else 8 // fact
            for wrong in sorted({0, 1, 3, 5, 100, good - 1, good + 1, good + fact - 1, good + fact, max(0, good - fact), 2 * good}):
                if wrong == good:
                    continue
                events.append(_ev(api, nb, "big", [1, 0, 1, 0, 1, 1, 0, 1], "zero", outsize=wrong))
                events.append(_ev(api, nb, "little", [1, 0, 1, 0, 1, 1, 0, 1] * 3, "dirty", outsize=(wrong if wrong != 3 * good else 1)))
    # the validation rules do not depend on the input being non-empty
    for api in ("unpack", "pack"):
        for nb in (0, 3, 8):
            events.append(_ev(api, nb, "big", [], "none"))
        for od in ("", "x", "msb"):
            events.append(_ev(api, 2, od, [], "none"))
        for dt in (np.uint16, np.float32):
            events.append(_ev(api, 2, "big", [], "none", dtype=dt))
        for nb in (1, 2, 4):
            for wrong in (1, 8 // nb, 7):
                events.append(_ev(api, nb, "little", [], "zero", outsize=wrong))
    # python-side structural clauses that are not about values (same buffer returned, dtype)
    for e in events:
        v.evaluations += 1
        key = (e["api"], e["site"], e["nbits"], e["order"], e["buf"], tuple(e["inp"]), e["outsize"], e["dtypeOk"])
        if (e["outcome"] == "ok" and e["insize"] > 0) or e["outcome"] != "ok":
            v.nontrivial.add(key)
        if not e["intact"]:
            v.violation("ResultsAreValues", SITE_U if e["api"] == "unpack" else SITE_P,
                        {k: e[k] for k in ("api", "nbits", "order", "buf", "insize")}, "an array returned by an earlier call (or this call's input) changed",
                        "earlier results and the input are left alone")
        if e["outcome"] == "ok" and not (e["sameBuf"] and e["outDtypeOk"]):
            v.violation("BufferIdentity", SITE_U if e["api"] == "unpack" else SITE_P,
                        {k: e[k] for k in ("api", "nbits", "order", "buf")}, "other buffer/dtype", "caller's buffer")
    # batch into traces of 200 events each
    traces = [{"hdr": {}, "ev": [{k: e[k] for k in ("api", "dtypeOk", "nbits", "orderHead", "insize", "outsize",
                                                    "outcome", "inp", "out", "intact")} for e in events[i:i + 200]],
               "raw": events[i:i + 200]} for i in range(0, len(events), 200)]
    for tr, pos in tracecheck.validate("Trace_Bits", traces, verdict=v, label="bits calls"):
        e = tr["raw"][abs(pos) - 1]
        v.violation("CallMatchesSpec", ("kernels." if e["site"] == "kernel" else "sigpyproc.io.bits.") + e["api"],
                    {k: e[k] for k in ("api", "nbits", "order", "buf", "inp", "outsize", "dtypeOk")},
                    {"outcome": e["outcome"], "out": e["out"]}, "Bits!CallOutcome / Bits!Unpack / Bits!Pack")
    v.traces += len(events)
    v.sample({"T_event": {k: events[len(events) // 2][k] for k in ("api", "nbits", "order", "buf", "inp", "out", "outcome")}})
    v.exhaustive = True
    v.extra["events_validated"] = len(events)


def replay(v, path) -> None:
    data = json.loads(open(path).read())
    for case in data["cases"]:
        c = case["cfg"]
        if "inp" in c:
            e = _ev(c["api"], c["nbits"], c["order"], c["inp"], c.get("buf", "none"))
            print("replayed:", {k: e[k] for k in ("api", "nbits", "order", "inp", "out", "outcome")},
                  "expected:", case["expected"])
    run(v)
