"""C02 - a multi-file stream reads as the concatenation of its data sections.

(M) MC_Stream: lock-step refinement of the code-shaped cursor (ifile, off) to the abstract cursor on
    the concatenation, every reachable history on every stream of 1..3 files of 0..3 bytes; reachability
    witnesses (double boundary crossing, zero-byte buffer read) must be refuted.
(T) Trace_Stream: histories of seek/cread/creadinto/read_block executed on real FileReader/FilReader
    objects over real files (exhaustive short histories on tiny files; random boundary-heavy long ones at
    depths 1..32) are validated event by event against the ABSTRACT layer.
(R) Gen_Stream: TLC-enumerated histories (with the abstract result of every step) replayed into the code.
"""
from __future__ import annotations

import itertools
import json
import random

import numpy as np

from .. import behaviours, fixtures, tlc, tracecheck
from ..common import MachineryFailure, scratch, seed, time_limited

SITE = "sigpyproc.io.fileio.FileReader"


def _oc(exc):
    if exc is None:
        return "ok"
    if isinstance(exc, ValueError):
        return "ValueError"
    return f"other:{type(exc).__name__}"


class Stream:
    """A real multi-file stream on disk plus the recorder that turns calls into trace events."""

    def __init__(self, d, name, nbits, nchans, lens_bytes, rng, whole=False):
        from sigpyproc.readers import FilReader
        self.nbits, self.nchans = nbits, nchans
        total = sum(lens_bytes)
        raw = bytes(rng.randrange(256) for _ in range(total)) if nbits != 32 else None
        if nbits == 32:
            nitems = total // 4
            vals = np.array([rng.randrange(0, 4000) for _ in range(nitems)], dtype="<f4")
            raw = vals.tobytes() + bytes(rng.randrange(256) for _ in range(total - 4 * nitems))
            self.vals = [int(x) for x in vals]
        else:
            self.vals = None
        self.files = []
        self.names = []
        at = 0
        tsamp = 0.001
        sb = nchans * nbits // 8
        for i, ln in enumerate(lens_bytes):
            p = d / f"{name}_{i}.fil"
            h = fixtures.encode_header(fixtures.default_header(
                nchans, nbits, tsamp=tsamp, tstart=50000.0 + (at // max(sb, 1)) * tsamp / 86400,
                extra={"rawdatafile": "scan_" + "9" * (1 + 2 * i) + ".fil"}))   # header lengths differ per file
            p.write_bytes(h + raw[at:at + ln])
            self.files.append(list(raw[at:at + ln]))
            self.names.append(str(p))
            at += ln
        self.fil = FilReader(self.names, check_contiguity=False)
        self.f = self.fil._file
        self.f.seek(0)  # histories start after a first successful seek (see MC_Stream)
        self.events = []
        self.held = []          # (array handed out earlier, copy of it): results are values, later reads must not change them

    def _stale(self, new=None):
        bad = any(not np.array_equal(a, snap) for a, snap in self.held)
        if bad:
            self.held.clear()
        if new is not None:
            self.held.append((new, np.array(new, copy=True)))
            del self.held[:-4]
        return bad

    def hdr(self):
        h = {"files": self.files, "nbits": self.nbits, "nchans": self.nchans, "p0": 0}
        if self.nbits == 32:
            h["vals"] = self.vals
        else:
            h["vals"] = _values([b for f in self.files for b in f], self.nbits)
        return h

    def pos(self):
        p = self.f.cur_data_pos_stream
        return -1 if p is None else int(p)

    def seek(self, off, whence):
        exc = None
        try:
            with time_limited(30):
                self.f.seek(off, whence)
        except Exception as e:  # noqa: BLE001   (a CallTimeout is not an Exception: it ends the driver, see ./check)
            exc = e
        self.events.append({"op": "seek", "whence": whence, "off": off, "outcome": _oc(exc), "pos": self.pos()})

    def cread(self, n):
        exc, out = None, []
        try:
            with time_limited(30):
                arr = self.f.cread(n)
            out = [int(x) for x in arr] if self.nbits < 8 else list(arr.tobytes())
            if self._stale(arr):
                exc = RuntimeError("an array returned by an earlier read changed")
        except Exception as e:  # noqa: BLE001   (a CallTimeout is not an Exception: it ends the driver, see ./check)
            exc = e
        self.events.append({"op": "cread", "n": n, "outcome": _oc(exc), "out": out, "pos": self.pos()})

    def creadinto(self, n):
        exc, out, ret = None, [], -1
        buf = bytearray(n)
        ubuf = bytearray(n * (8 // self.nbits)) if self.nbits < 8 else None
        try:
            with time_limited(30):
                ret = self.f.creadinto(buf, ubuf)
            out = list(buf[:ret])
        except Exception as e:  # noqa: BLE001   (a CallTimeout is not an Exception: it ends the driver, see ./check)
            exc = e
        self.events.append({"op": "creadinto", "n": n, "outcome": _oc(exc), "ret": int(ret), "out": out,
                            "pos": self.pos()})

    def read_block(self, s, k):
        exc, out, shape = None, [], []
        try:
            with time_limited(30):
                blk = self.fil.read_block(s, k)
            a = np.asarray(blk.data)
            shape = [int(x) for x in a.shape]
            if not np.all(a == np.round(a)):
                out = [[-1]]
            else:
                out = [[int(x) for x in row] for row in a]
        except Exception as e:  # noqa: BLE001   (a CallTimeout is not an Exception: it ends the driver, see ./check)
            exc = e
        self.events.append({"op": "read_block", "s": s, "k": k, "outcome": _oc(exc), "out": out, "shape": shape,
                            "pos": self.pos()})

    def apply(self, op):
        getattr(self, op[0])(*op[1:])

    def close(self):
        self.f.close()


def _values(D, nbits):
    if nbits == 8:
        return list(D)
    if nbits == 16:
        return [D[2 * i] + 256 * D[2 * i + 1] for i in range(len(D) // 2)]
    fact = 8 // nbits
    out = []
    for b in D:
        for j in range(fact):
            sh = j * nbits if nbits == 1 else (fact - 1 - j) * nbits
            out.append((b >> sh) & ((1 << nbits) - 1))
    return out


def _boundary_offsets(lens, rng):
    cum = [0]
    for x in lens:
        cum.append(cum[-1] + x)
    cand = set()
    for c in cum:
        cand.update({c - 1, c, c + 1})
    cand.update({-1, 0, cum[-1], cum[-1] + 1, rng.randrange(0, max(cum[-1], 1))})
    return sorted(cand)


def run(v) -> None:
    from sigpyproc.readers import FilReader  # noqa: F401
    rng = random.Random(seed())
    quick = v.tier == "quick"
    d = scratch() / "c02"
    d.mkdir(exist_ok=True)
    v.rule = ("histories distinct by (depth, per-file byte lengths, op sequence); non-trivial = stream of >= 2 files "
              "with at least one read or seek landing within 1 byte of a file boundary, or a raising op")
    v.assumptions += ["histories start after one successful seek (a fresh reader points into the header)",
                      "32-bit sample values are integer-valued floats written by numpy (IEEE decoding not modelled)",
                      "16/32-bit files hold whole items (a SIGPROC set splits on sample boundaries)"]
    # (M) ---------------------------------------------------------------------------------------
    for cfg in (["MC_Stream.cfg", "MC_Stream_b2.cfg"] if quick else ["MC_Stream.cfg", "MC_Stream_b2.cfg", "MC_Stream_big.cfg"]):
        res = tlc.must_pass(tlc.run("MC_Stream", cfg, workers=8), cfg)
        v.add_tlc(res, cfg)
    tlc.must_fail(tlc.run("MC_Stream", "MC_Stream_reach1.cfg", workers=4), "reach: double boundary crossing", "NoDoubleCross")
    tlc.must_fail(tlc.run("MC_Stream", "MC_Stream_reach2.cfg", workers=4), "reach: zero-byte buffer read", "NoShortRead")

    traces = []
    n_id = 0

    def finish(st, kind, ops):
        nonlocal n_id
        n_id += 1
        traces.append({"hdr": st.hdr(), "ev": st.events, "kind": kind, "ops": ops,
                       "lens": [len(f) for f in st.files], "nbits": st.nbits, "nchans": st.nchans})
        st.close()

    # (T1) exhaustive short histories on tiny 8-bit and 2-bit streams ---------------------------
    depth = 2 if quick else 3
    tiny = [(8, 1, [2, 1]), (8, 1, [1, 0, 2]), (8, 2, [2, 2, 2]), (2, 4, [1, 2]), (1, 8, [1, 1, 1]), (4, 2, [3])]
    if not quick:
        tiny += [(8, 1, [0, 2, 1]), (16, 1, [2, 4]), (32, 1, [4, 4, 4]), (4, 2, [1, 0, 1])]
    for nbits, nchans, lens in tiny:
        total = sum(lens)
        fact = 8 // nbits if nbits < 8 else 1
        alphabet = [("seek", o, 0) for o in (-1, 0, lens[0] - 1, lens[0], total - 1, total)]
        alphabet += [("seek", o, 1) for o in (-1, 1, -total)]
        alphabet += [("cread", n * fact) for n in (0, 1, 2, total + 1)]
        alphabet += [("creadinto", n) for n in (1, 2, total + 1)]
        alphabet = list(dict.fromkeys(alphabet))
        for ops in itertools.product(alphabet, repeat=depth):
            st = Stream(d, "t", nbits, nchans, lens, rng)
            for op in ops:
                st.apply(op)
            finish(st, "exhaustive", [list(o) for o in ops])
    # (T2) random long boundary-heavy histories at every depth --------------------------------
    nrand = 150 if quick else 1500
    for _ in range(nrand):
        nbits = rng.choice([1, 2, 4, 8, 16, 32])
        nchans = rng.choice([c for c in (1, 2, 4, 8) if (c * nbits) % 8 == 0])
        sb = nchans * nbits // 8
        isz = {16: 2, 32: 4}.get(nbits, 1)
        nfiles = rng.choice([1, 2, 2, 3, 3])
        whole = rng.random() < 0.6
        if whole:
            lens = [sb * rng.randrange(0 if nfiles > 1 else 1, 5) for _ in range(nfiles)]
        else:
            lens = [isz * rng.randrange(0, 9) for _ in range(nfiles)]
        if sum(lens) == 0:
            lens[0] = sb
        st = Stream(d, "r", nbits, nchans, lens, rng)
        total = sum(lens)
        fact = 8 // nbits if nbits < 8 else 1
        nsamp = (8 * total) // nbits // nchans
        ops = []
        for _ in range(rng.randrange(5, 25 if quick else 40)):
            r = rng.random()
            if r < 0.3:
                op = ("seek", rng.choice(_boundary_offsets(lens, rng)), 0)
            elif r < 0.45:
                op = ("seek", rng.choice([-total, -isz, -1, 0, 1, isz, 2, total // 2]), 1)
            elif r < 0.65:
                op = ("cread", fact * rng.choice([0, 1, 1, 2, 3, nchans, 2 * nchans, total]))
            elif r < 0.85:
                op = ("creadinto", rng.choice([1, 2, 3, sb, 2 * sb, total, total + 3]))
            elif whole and nsamp > 0:
                s = rng.randrange(-1, nsamp + 1)
                op = ("read_block", s, rng.randrange(1, max(2, nsamp - max(s, 0) + 2)))
            else:
                op = ("seek", rng.randrange(0, total), 0)
            st.apply(op)
            ops.append(list(op))
        finish(st, "random", ops)
    # (T3) read_block: every (start, nsamps) on a few whole-sample streams ---------------------
    rb_cfgs = [(8, 2, [2, 1, 2]), (2, 4, [3, 2]), (32, 1, [2, 3]), (16, 2, [1, 2, 1]), (1, 8, [2, 2]), (4, 2, [5])]
    for nbits, nchans, split in (rb_cfgs[:3] if quick else rb_cfgs):
        sb = nchans * nbits // 8
        n = sum(split)
        st = Stream(d, "b", nbits, nchans, [sb * k for k in split], rng)
        ops = []
        for s in range(-1, n + 2):
            for k in range(1, n + 3):
                st.read_block(s, k)
                ops.append(["read_block", s, k])
        finish(st, "read_block-grid", ops)

    # (R) spec -> code: TLC-generated behaviours of the abstract stream, replayed step by step ------------
    gens = [("<<2, 0, 1>>", 2), ("<<1, 2>>", 2)] if quick else [("<<2, 0, 1>>", 3), ("<<1, 2>>", 3), ("<<3>>", 4), ("<<1, 1, 1>>", 3), ("<<0, 2, 2>>", 3)]
    nreplayed = 0
    for lens_s, dep in gens:
        behs = behaviours.generate("Gen_Stream", {"GenLens": lens_s}, ["SPECIFICATION Spec", "CONSTANTS", "  Lens <- GenLens",
                                   f"  Depth = {dep}", "INVARIANT Emit", "CHECK_DEADLOCK FALSE"], verdict=v, label=lens_s)
        sims = behaviours.generate("Gen_Stream", {"GenLens": "<<5, 3, 0, 4>>"}, ["SPECIFICATION Spec", "CONSTANTS", "  Lens <- GenLens",
                                   "  Depth = 12", "INVARIANT Emit", "CHECK_DEADLOCK FALSE"], simulate=f"num={40 if quick else 400}", depth=13,
                                   verdict=v, label="simulate") if lens_s == gens[0][0] else []
        streams = {}
        for b in behs + sims:
            lens = b["lens"]
            key = tuple(lens)
            if key not in streams:
                st = Stream(d, f"g{len(streams)}_{nreplayed}", 8, 1, lens, rng)
                # the generator's data: byte i of the concatenation has value i % 251
                at = 0
                for i, ln in enumerate(lens):
                    raw = open(st.names[i], "rb").read()
                    open(st.names[i], "wb").write(raw[: len(raw) - ln] + bytes((at + j) % 251 for j in range(ln)))
                    at += ln
                streams[key] = st
            st = streams[key]
            st.f.seek(0)               # every behaviour starts after one successful seek, like the model's Init
            st.events.clear()
            for k, step in enumerate(b["hist"]):
                if step["op"] == "seek":
                    st.seek(step["arg"], step["whence"])
                elif step["op"] == "cread":
                    st.cread(step["arg"])
                else:
                    st.creadinto(step["arg"])
                e = st.events[-1]
                got = {"outcome": e["outcome"], "pos": e["pos"], "out": e.get("out", [])}
                exp = {"outcome": step["outcome"], "pos": step["pos"], "out": step["out"]}
                if got != exp:
                    v.violation("ReplayStep_" + step["op"], SITE + "." + step["op"],
                                {"nbits": 8, "nchans": 1, "lens": lens, "ops": [[h["op"], h["arg"], h["whence"]] for h in b["hist"][: k + 1]],
                                 "kind": "tlc-generated", "p_before": b["hist"][k - 1]["pos"] if k else 0,
                                 "item_straddles_file_boundary": False}, got, exp)
                    break
            nreplayed += 1
        for st in streams.values():
            st.close()
    v.traces += nreplayed
    v.extra["tlc_generated_behaviours_replayed"] = nreplayed

    # validate ------------------------------------------------------------------------------------
    for t in traces:
        v.evaluations += 1
        key = (t["nbits"], tuple(t["lens"]), json.dumps(t["ops"]))
        cum = list(itertools.accumulate(t["lens"]))
        near = any((e["pos"] >= 0 and any(abs(e["pos"] - c) <= 1 for c in cum[:-1])) or e["outcome"] != "ok"
                   for e in t["ev"])
        if len(t["lens"]) >= 2 and near:
            v.nontrivial.add(key)
    def on_reject(tr, pos):
        e = tr["ev"][pos - 1]
        p_before = tr["ev"][pos - 2]["pos"] if pos >= 2 else tr["hdr"]["p0"]
        isz = {16: 2, 32: 4}.get(tr["nbits"], 1)
        cum = list(itertools.accumulate(tr["lens"]))[:-1]
        nb = (e.get("n", 0) // (8 // tr["nbits"] if tr["nbits"] < 8 else 1)) * isz if e["op"] == "cread" else 0
        straddle = any(p_before < c < p_before + nb and (c - p_before) % isz != 0 for c in cum)
        v.violation("Step_" + e["op"], SITE + "." + e["op"] if e["op"] != "read_block" else "FilReader.read_block",
                    {"nbits": tr["nbits"], "nchans": tr["nchans"], "lens": tr["lens"], "ops": tr["ops"][:pos],
                     "kind": tr["kind"], "p_before": p_before, "item_straddles_file_boundary": straddle},
                    {k: e[k] for k in e if k != "op"}, "step of Stream's abstract layer (see Trace_Stream)")
        # resynchronise on the logged position and judge the rest of the history too
        if pos < len(tr["ev"]) and e["pos"] >= 0:
            h = dict(tr["hdr"])
            h["p0"] = e["pos"]
            rest = dict(tr)
            rest["hdr"], rest["ev"], rest["ops"] = h, tr["ev"][pos:], tr["ops"][pos:]
            return rest
        return None

    tracecheck.validate_total("Trace_Stream", traces, on_reject, verdict=v, label="stream histories", chunk=800)
    v.traces += len(traces)
    v.sample({"lens": traces[0]["lens"], "nbits": traces[0]["nbits"], "events": traces[0]["ev"]})
    v.sample({"lens": traces[-1]["lens"], "nbits": traces[-1]["nbits"], "events": traces[-1]["ev"][:6]})
    v.extra["events_validated"] = sum(len(t["ev"]) for t in traces)
    v.exhaustive = False


def replay(v, path) -> None:
    data = json.loads(open(path).read())
    rng = random.Random(seed())
    d = scratch() / "c02r"
    d.mkdir(exist_ok=True)
    for case in data["cases"][:5]:
        c = case["cfg"]
        st = Stream(d, "x", c["nbits"], c["nchans"], c["lens"], rng)
        for op in c["ops"]:
            st.apply(tuple(op))
        print("replayed last event:", st.events[-1])
        st.close()
    run(v)
