"""C14 - time-domain filters and decimators equal their definitions.

(M) MC_Filters1D: on all integer sequences of length <= 5 over 0..2 and all widths 1..13: output length =
    input length, width 1 is the identity, decimation by 1 is the identity and by n the global sum, the
    remainder is dropped, flattened decimation = 2-D decimation, the detrend residual satisfies both
    normal equations, the reflection maps any index into range and repeats the edge sample.
(T) Trace_Filters1D: recorded calls of stats.running_filter, downsample_1d/2d/2d_flat (mean and median),
    kernels.downsample_1d_mean/_2d_mean_flat (compiled, py_func and parallel), kernels.detrend_1d,
    TimeSeries.deredden/downsample and FilterbankBlock.downsample on integer data in float32, float64 and
    uint8 (values near 255), lengths 1..12, widths 1..2n+3, every factor - compared by TLC with Filters1D.
"""
from __future__ import annotations

import json
import random

import numpy as np

from .. import fixtures, pool, tlc, tracecheck
from ..common import inputs_intact, seed, watched_inputs

Q = 256
DT = {"f4": np.float32, "f8": np.float64, "u1": np.uint8}


def _q(a, reduced):
    a = np.asarray(a)
    if reduced:
        return [int(x) for x in a.ravel()]
    out = []
    for x in a.ravel():
        x = float(x)
        out.append(int(round(x * Q)) if np.isfinite(x) else 2_000_000_000)
    return out


def job(spec):
    from sigpyproc.core import kernels, stats
    from sigpyproc.readers import FilReader
    d = pool.worker_scratch()
    rng = np.random.default_rng(spec["seed"])
    p = d / f"c14_{spec['id']}.fil"
    fixtures.write_fil(p, np.zeros(8, dtype=np.int64), 4, 8, tsamp=0.5)
    hdr = FilReader(str(p)).header
    evs = []

    def ev(base, fn, reduced_if_int=True):
        e = dict({"f": "", "method": "mean", "x": [], "w": 1, "f1": 1, "f2": 1, "d1": 1, "d2": 1, "A": [[0]], "q": Q, "tol": 2,
                  "reduced": False, "outq": []}, **base)
        w = watched_inputs(fn)
        try:
            r = np.asarray(fn())
            e["reduced"] = bool(reduced_if_int and r.dtype.kind in "ui")
            if r.ndim == 2:
                e["outq"] = [_q(row, e["reduced"]) for row in r]
            else:
                e["outq"] = _q(r, e["reduced"])
            e["outcome"] = "ok" if inputs_intact(w) else "raise:InputModified:the call changed an array it was given"
            e["out_dtype"] = str(r.dtype)
        except Exception as exc:  # noqa: BLE001
            e["outcome"] = f"raise:{type(exc).__name__}:{str(exc)[:60]}"
        evs.append(e)

    for case in spec["cases"]:
        kind, dt = case["kind"], case["dt"]
        hi = 256 if dt == "u1" else 200
        lo = 230 if dt == "u1" else 0            # uint8 near 255: an integer accumulator would overflow
        if kind == "run":
            n, w = case["n"], case["w"]
            x = rng.integers(lo, hi, size=n)
            arr = x.astype(DT[dt])
            for method in ("mean", "median"):
                ev({"f": "run", "method": method, "x": [int(v) for v in x], "w": w, "dt": dt},
                   lambda: stats.running_filter(arr, w, method=method), reduced_if_int=False)
            if dt == "f4" and n >= 1:
                ts_hdr = hdr.new_header({"nchans": 1, "nsamples": n})
                from sigpyproc.timeseries import TimeSeries
                for method in ("mean", "median"):
                    ev({"f": "deredden", "method": method, "x": [int(v) for v in x], "w": w, "dt": dt},
                       lambda: TimeSeries(arr, ts_hdr).deredden(method=method, window=w * 0.5).data)
        elif kind == "dec1d":
            n, f = case["n"], case["f"]
            x = rng.integers(lo, hi, size=n)
            arr = x.astype(DT[dt])
            base = {"f": "dec1d", "x": [int(v) for v in x], "f1": f, "dt": dt}
            for method in ("mean", "median"):
                ev(dict(base, method=method, api="stats.downsample_1d"), lambda: stats.downsample_1d(arr, f, method=method),
                   reduced_if_int=(method == "mean"))
            if case.get("big"):
                continue                       # the large case goes through the public entry point only (its trace carries 2^18 values per event)
            ev(dict(base, api="kernels.downsample_1d_mean"), lambda: kernels.downsample_1d_mean(arr, f))
            ev(dict(base, api="kernels.downsample_1d_mean.py_func"), lambda: kernels.downsample_1d_mean.py_func(arr, f))
            ev(dict(base, api="kernels.downsample_1d_mean_parallel"), lambda: kernels.downsample_1d_mean_parallel(arr, f))
            if dt == "f4" and f < n:
                from sigpyproc.timeseries import TimeSeries
                ts_hdr = hdr.new_header({"nchans": 1, "nsamples": n})
                for method in ("mean", "median"):
                    ev(dict(base, method=method, api="TimeSeries.downsample"),
                       lambda: TimeSeries(arr, ts_hdr).downsample(f, method).data)
        elif kind == "dec2d":
            d1, d2, f1, f2 = case["d1"], case["d2"], case["f1"], case["f2"]
            A = rng.integers(lo, hi, size=(d1, d2))
            arr = A.astype(DT[dt])
            rows = [[int(v) for v in r] for r in A]
            for method in ("mean", "median"):
                ev({"f": "dec2d", "method": method, "A": rows, "f1": f1, "f2": f2, "dt": dt, "api": "stats.downsample_2d"},
                   lambda: stats.downsample_2d(arr, (f1, f2), method), reduced_if_int=False)
                ev({"f": "decflat", "method": method, "x": [int(v) for v in A.ravel()], "f1": f1, "f2": f2, "d1": d1, "d2": d2, "dt": dt,
                    "api": "stats.downsample_2d_flat"},
                   lambda: stats.downsample_2d_flat(arr.ravel(), f1, f2, d1, d2, method), reduced_if_int=(method == "mean"))
            flat = {"f": "decflat", "x": [int(v) for v in A.ravel()], "f1": f1, "f2": f2, "d1": d1, "d2": d2, "dt": dt}
            ev(dict(flat, api="kernels.downsample_2d_mean_flat"), lambda: kernels.downsample_2d_mean_flat(arr.ravel(), f1, f2, d1, d2))
            ev(dict(flat, api="kernels.downsample_2d_mean_flat.py_func"),
               lambda: kernels.downsample_2d_mean_flat.py_func(arr.ravel(), f1, f2, d1, d2))
            ev(dict(flat, api="kernels.downsample_2d_mean_parallel"),
               lambda: kernels.downsample_2d_mean_parallel(arr.ravel(), f1, f2, d1, d2))
            if dt == "f4":
                from sigpyproc.block import FilterbankBlock
                bh = hdr.new_header({"nchans": d1, "nsamples": d2})
                for method in ("mean", "median"):
                    ev({"f": "dec2d", "method": method, "A": rows, "f1": f1, "f2": f2, "dt": dt, "api": "FilterbankBlock.downsample"},
                       lambda: FilterbankBlock(arr, bh).downsample(ffactor=f1, tfactor=f2, filter_method=method).data)
        else:  # detrend
            n = case["n"]
            x = rng.integers(0, 200, size=n)
            arr = x.astype(DT[dt if dt != "u1" else "f4"])
            ev({"f": "detrend", "x": [int(v) for v in x], "dt": dt, "tol": 4}, lambda: kernels.detrend_1d(arr))
    return evs


def run(v) -> None:
    rng = random.Random(seed())
    quick = v.tier == "quick"
    v.rule = "calls distinct by (function, api, dtype, method, input, parameters); non-trivial = width/factor > 1"
    v.assumptions += ["integer-valued inputs; float outputs compared in fixed point q=256 with tolerance 2 units (detrend 4)",
                      "integer-typed outputs (uint8 mean) compared exactly with the floor of the exact mean"]
    v.add_tlc(tlc.must_pass(tlc.run("MC_Filters1D", "MC_Filters1D.cfg", workers=4), "MC_Filters1D"), "MC_Filters1D")
    cases = []
    maxn = 8 if quick else 14
    for dt in ("f4", "f8", "u1"):
        for n in range(1, maxn + 1):
            ws = list(range(1, 2 * n + 4))
            if quick:
                ws = [w for w in ws if w <= 5 or w in (n, n + 1, 2 * n + 1, 2 * n + 2, 2 * n + 3)]
            for w in ws:
                cases.append({"kind": "run", "dt": dt, "n": n, "w": w})
            for f in range(1, n + 1):
                cases.append({"kind": "dec1d", "dt": dt, "n": n, "f": f})
            cases.append({"kind": "detrend", "dt": dt, "n": n})
        shapes = [(d1, d2) for d1 in range(1, 7) for d2 in range(1, 9)]
        if quick:
            shapes = rng.sample(shapes, 10)
        for (d1, d2) in shapes:
            pairs = [(f1, f2) for f1 in range(1, d1 + 1) for f2 in range(1, d2 + 1)]
            for (f1, f2) in (rng.sample(pairs, min(4, len(pairs))) if quick else pairs):
                cases.append({"kind": "dec2d", "dt": dt, "d1": d1, "d2": d2, "f1": f1, "f2": f2})
    # at scale: a series longer than any internal blocking threshold (2^18 + 5 samples), mean and median decimation by 3 and 4
    for dt, f in ([("u1", 3)] if quick else [("u1", 3), ("f4", 4), ("f4", 3)]):
        cases.append({"kind": "dec1d", "dt": dt, "n": 2 ** 18 + 5, "f": f, "big": True})
    specs = [{"id": i, "seed": seed() * 41 + i, "cases": cases[i::14]} for i in range(14)]
    evs = [e for r in pool.pmap(job, specs, workers=14) for e in r]
    traces = [{"hdr": {}, "ev": [{k: e[k] for k in ("f", "method", "x", "w", "f1", "f2", "d1", "d2", "A", "q", "tol", "reduced", "outq", "outcome")}
                                 for e in evs[i:i + 60]], "full": evs[i:i + 60]} for i in range(0, len(evs), 60)]
    for e in evs:
        v.evaluations += 1
        if e["w"] > 1 or e["f1"] > 1 or e["f2"] > 1 or e["f"] == "detrend":
            v.nontrivial.add(json.dumps({k: e[k] for k in e if k not in ("outq",)}, sort_keys=True, default=str))
    for tr, pos in tracecheck.validate("Trace_Filters1D", traces, verdict=v, label="filter/decimator calls", chunk=20, timeout=3000):
        e = tr["full"][abs(pos) - 1]
        site = e.get("api") or {"run": "stats.running_filter", "deredden": "TimeSeries.deredden", "detrend": "kernels.detrend_1d"}[e["f"]]
        cfg = {k: e[k] for k in ("f", "method", "x", "w", "f1", "f2", "d1", "d2", "A", "dt") if k in e}
        v.violation("EqualsDefinition" if e["outcome"] == "ok" else "MustNotRaise", site, cfg,
                    {"outcome": e["outcome"], "outq": e["outq"][:12] if e["outq"] else [], "reduced": e["reduced"],
                     "out_dtype": e.get("out_dtype")}, "Filters1D (Trace_Filters1D!EvOK)")
    v.traces += len(evs)
    for f in ("run", "dec2d", "detrend"):
        e = next(x for x in evs if x["f"] == f)
        v.sample({k: e[k] for k in ("f", "method", "x", "w", "A", "f1", "f2", "outq", "outcome", "dt") if k in e})


def replay(v, path) -> None:
    print(open(path).read()[:1500])
    run(v)
