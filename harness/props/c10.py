"""C10 - online channel statistics do not depend on how the stream is chunked or merged.

(M) MC_Moments: every composition of every stream (length <= 7, values 0..3) into chunks and every merge
    split in both operand orders gives the accumulator of the whole stream; constant channels have zero
    second and third central sums; 167k states.
(T) Trace_Moments: real ChannelStats objects are fed every composition of streams of length <= 8 (6 quick)
    and every merge split, in basic and full mode, 1-2 channels, data classes constant / 1-bit / 2-bit /
    8-bit / wide-range float (affine images a*v+b of the base stream, mapped back by the projection);
    after EVERY push_data / __add__ the observable state is logged and TLC checks count/min/max exactly
    and mean/var/skew/kurtosis against the values derived from the abstract power sums.
"""
from __future__ import annotations

import itertools
import json
import math
import random

import numpy as np

from .. import pool, tlc, tracecheck
from ..common import seed

Q = 4096
CLASSES = {"const": (1.0, 0.0), "bit": (1.0, 0.0), "small": (1.0, 0.0), "byte": (85.0, 0.0), "wide_hi": (1000.0, -300.0),
           "wide_lo": (0.01, 1.0), "neg": (-2.0, 7.0), "tiny": (2.0 ** -13, 0.0)}     # tiny: standard deviations of a few 1e-4 (exact in float32)


def compositions(n):
    for mask in range(2 ** (n - 1)):
        parts, cur = [], 1
        for i in range(n - 1):
            if mask >> i & 1:
                parts.append(cur)
                cur = 1
            else:
                cur += 1
        parts.append(cur)
        yield parts


def _fx(x, q):
    x = float(x)
    if not math.isfinite(x):
        return 2_000_000_000
    return int(max(-2_000_000_000, min(2_000_000_000, round(x * q))))


def observe(st, a, b, full):
    with np.errstate(all="ignore"):
        cnt = st.moments["count"]
        mean, var, mx, mn = st.mean, st.var, st.maxima, st.minima
        sk = st.skew if full else np.zeros_like(mean)
        ku = st.kurtosis if full else np.zeros_like(mean)
    out = []
    sgn = 1.0 if a > 0 else -1.0
    for i in range(len(cnt)):
        fin = all(math.isfinite(float(x)) for x in (mean[i], var[i], mx[i], mn[i], sk[i], ku[i]))
        lo, hi = (float(mn[i]) - b) / a, (float(mx[i]) - b) / a
        if a < 0:
            lo, hi = hi, lo
        out.append({"finite": bool(fin), "count": int(cnt[i]), "mn": _fx(lo, 1), "mx": _fx(hi, 1),
                    "meanq": _fx((float(mean[i]) - b) / a, Q), "varq": _fx(float(var[i]) / (a * a), Q),
                    "skewq": _fx(float(sk[i]) * sgn, 64), "kurtq": _fx(float(ku[i]), 64)})
    return out


def job(spec):
    from sigpyproc.core.stats import ChannelStats
    traces = []
    for h in spec["hists"]:
        a, b = CLASSES[h["cls"]]
        base = np.array(h["stream"], dtype=np.int64)            # (L, C)
        L, C = base.shape
        data = (a * base + b).astype(np.float32)
        full = h["mode"] == "full"
        # unpacked 1..8-bit blocks reach the accumulator as uint8 arrays: same values, another dtype
        dt = np.uint8 if (h.get("dtype") == "u1" and (a, b) == (1.0, 0.0)) else np.float32
        mag = float(np.max(np.abs(data))) / abs(a)
        tolmean = int(math.ceil(mag * 2.0 ** -23 * L * 8 * Q * 8)) + 2
        tol = {"q": Q, "tolmean": tolmean, "tolvar": 6 * tolmean + 2, "tolskew": 3 + tolmean // 8, "tolkurt": 4 + tolmean // 4,
               "full": bool(full)}
        ev = []
        objs = {}

        def push(k, lo, hi, first, nsamps):
            if k not in objs:
                objs[k] = ChannelStats(C, nsamps)
            objs[k].push_data(np.ascontiguousarray(data[lo:hi]).ravel().astype(dt), 0 if first else lo, mode=h["mode"])
            ev.append(dict(tol, a="push", k=k, ka=0, kb=0, nsamps=nsamps, chunk=[[int(x) for x in row] for row in base[lo:hi]],
                           obs=observe(objs[k], a, b, full)))
        if h["kind"] == "file":
            # the accumulator as the library itself drives it: Filterbank.compute_stats(_basic) over a gulped sub-range of a file
            from sigpyproc.readers import FilReader
            from .. import fixtures as fx, pool as pl
            pth = pl.worker_scratch() / f"c10_{abs(hash(json.dumps(h, sort_keys=True))) % 10**9}.fil"
            fx.write_fil(pth, data.ravel(), C, 8 if dt == np.uint8 else 32, fch1=1500.0, foff=-1.0)
            fil = FilReader(str(pth))
            lo, n = h["start"], h["nsamps"]
            (fil.compute_stats if full else fil.compute_stats_basic)(gulp=h["gulp"], start=lo, nsamps=n, quiet=True)
            ev.append(dict(tol, a="push", k=1, ka=0, kb=0, nsamps=n, chunk=[[int(x) for x in row] for row in base[lo:lo + n]],
                           obs=observe(fil.chan_stats, a, b, full)))
            fil._file.close()
            pth.unlink(missing_ok=True)
        elif h["kind"] == "chunks":
            at = 0
            for n in h["parts"]:
                push(1, at, at + n, at == 0, L)
                at += n
        else:
            s = h["split"]
            at = 0
            for n in h["parts_a"]:
                push(1, at, at + n, at == 0, s)
                at += n
            for n in h["parts_b"]:
                push(2, at, at + n, at == s, L - s)
                at += n
            order = (1, 2) if h["order"] == "ab" else (2, 1)
            objs[3] = objs[order[0]] + objs[order[1]]
            ev.append(dict(tol, a="merge", k=3, ka=order[0], kb=order[1], nsamps=L, chunk=[], obs=observe(objs[3], a, b, full)))
        traces.append({"hdr": {"nchans": C}, "ev": ev, "cfg": {k: h[k] for k in h if k != "stream"} | {"stream": h["stream"]}})
    return traces


def run(v) -> None:
    rng = random.Random(seed())
    quick = v.tier == "quick"
    v.rule = ("histories distinct by (stream, class, mode, chunking / split+order); non-trivial = >= 2 pushes or a merge")
    v.assumptions += ["the first push into an accumulator carries start index 0, later pushes a non-zero index (documented usage)",
                      "the accumulator is constructed with the number of samples it will receive",
                      "float fields mapped back to the base integer stream (undoing a*v+b) and compared in fixed point q=4096 "
                      "with tolerance 64*n*2^-23*max|data|/|a| (+2 units)"]
    v.add_tlc(tlc.must_pass(tlc.run("MC_Moments", "MC_Moments.cfg" if not quick else "MC_Moments_q.cfg", workers=12, timeout=3000),
                            "MC_Moments"), "MC_Moments")
    hists = []
    maxlen = 6 if quick else 9

    def stream_for(cls, L, C):
        if cls == "const":
            v0 = rng.randrange(0, 4)
            return [[v0 if c == 0 else rng.randrange(0, 4) for c in range(C)] for _ in range(L)]   # channel 0 constant
        top = 2 if cls == "bit" else 4
        return [[rng.randrange(0, top) for _ in range(C)] for _ in range(L)]

    for cls in CLASSES:
        for L in ((maxlen, 3) if quick else (maxlen, 5, 2)):
            for C in (1, 2):
                st = stream_for(cls, L, C)
                for mode in ("basic", "full"):
                    for parts in compositions(L):
                        if quick and (sum(p * (i + 1) for i, p in enumerate(parts)) + C) % 3 and len(parts) not in (1, L):
                            continue
                        hists.append({"kind": "chunks", "cls": cls, "mode": mode, "stream": st, "parts": parts})
                    for s in range(1, L):
                        for order in ("ab", "ba"):
                            pa = rng.choice(list(compositions(s)))
                            pb = rng.choice(list(compositions(L - s)))
                            hists.append({"kind": "merge", "cls": cls, "mode": mode, "stream": st, "split": s, "order": order,
                                          "parts_a": pa, "parts_b": pb})
    if not quick:
        for _ in range(1500):
            cls = rng.choice(list(CLASSES))
            L, C = rng.randrange(2, 9), rng.choice([1, 2, 3])
            st = stream_for(cls, L, C)
            if rng.random() < 0.5:
                hists.append({"kind": "chunks", "cls": cls, "mode": rng.choice(["basic", "full"]), "stream": st,
                              "parts": rng.choice(list(compositions(L)))})
            else:
                s = rng.randrange(1, L)
                hists.append({"kind": "merge", "cls": cls, "mode": rng.choice(["basic", "full"]), "stream": st, "split": s,
                              "order": rng.choice(["ab", "ba"]), "parts_a": rng.choice(list(compositions(s))),
                              "parts_b": rng.choice(list(compositions(L - s)))})
    # the same accumulator driven by Filterbank.compute_stats / compute_stats_basic: every (gulp, start, nsamps) of short files
    for cls in CLASSES:
        for (L, C) in ([(6, 2)] if quick else [(6, 2), (9, 1), (8, 3)]):
            st = stream_for(cls, L, C)
            for mode in ("basic", "full"):
                for start in range(0, L):
                    for nsamps in range(1, L - start + 1):
                        for gulp in ([1, 2, nsamps + 1] if quick else list(range(1, nsamps + 2))):
                            if quick and (start * 5 + nsamps * 3 + gulp) % 3:
                                continue
                            hists.append({"kind": "file", "cls": cls, "mode": mode, "stream": st, "start": start, "nsamps": nsamps, "gulp": gulp})
    for i, h in enumerate(hists):
        h["dtype"] = "u1" if i % 2 else "f4"
    specs = [{"hists": hists[i::14]} for i in range(14)]
    traces = [t for r in pool.pmap(job, specs, workers=14) for t in r]
    for t in traces:
        v.evaluations += 1
        if len(t["ev"]) >= 2 or (t["cfg"]["kind"] == "file" and t["cfg"]["gulp"] < t["cfg"]["nsamps"]):
            v.nontrivial.add(json.dumps(t["cfg"], sort_keys=True))

    def on_reject(tr, pos):
        e = tr["ev"][pos - 1]
        cfg = dict(tr["cfg"])
        cfg["event_index"] = pos
        cfg["step"] = e["a"]
        v.violation("StepMatchesAbstractAccumulator", ("Filterbank.compute_stats" if cfg.get("kind") == "file" else "ChannelStats.push_data") if e["a"] == "push" else "ChannelStats.__add__",
                    cfg, {"obs": e["obs"], "tol": {k: e[k] for k in ("tolmean", "tolvar", "tolskew", "tolkurt")}},
                    "Moments (power sums) via Trace_Moments!ObsOK")
        return None

    # ---- streams too long for TLC's 32-bit integers: the Python transcription of Moments.tla (harness/moments_oracle.py) -------------
    from .. import moments_oracle as mo
    from sigpyproc.core.stats import ChannelStats

    def oracle_rejects(tr):
        accs = {}
        C = tr["hdr"]["nchans"]
        for e in tr["ev"]:
            if e["a"] == "push":
                cols = [[row[c] for row in e["chunk"]] for c in range(C)]
                accs[e["k"]] = [mo.merge(accs.get(e["k"], [{"n": 0}] * C)[c], mo.of_seq(cols[c])) if cols[c] else accs[e["k"]][c] for c in range(C)]
            else:
                accs[e["k"]] = [mo.merge(accs[e["ka"]][c], accs[e["kb"]][c]) for c in range(C)]
            if not all(mo.obs_ok_basic(accs[e["k"]][c], e["obs"][c], e["q"], e["nsamps"], e["tolmean"], e["tolvar"]) for c in range(C)):
                return True
        return False
    tlc_rejected = set()

    def on_reject2(tr, pos):
        tlc_rejected.add(id(tr))
        return on_reject(tr, pos)
    tracecheck.validate_total("Trace_Moments", traces, on_reject2, verdict=v, label="ChannelStats histories", chunk=2000)
    lone = [t for t in traces if oracle_rejects(t) and id(t) not in tlc_rejected]
    if lone:
        from ..common import MachineryFailure
        raise MachineryFailure(f"the Python transcription of Moments.tla rejects {len(lone)} histories that TLC accepts: it is not the specification")
    nbig = 0
    for (L1, L2, C) in ([(60000, 70000, 2)] if quick else [(60000, 70000, 2), (46341, 46341, 1), (200000, 100, 3), (30000, 80000, 2)]):
        for mode in ("basic", "full"):
            for order in ("ab", "ba"):
                nrng = np.random.default_rng(seed() * 7 + L1 + len(mode))
                x1 = nrng.integers(0, 4, size=(L1, C))
                x2 = nrng.integers(2, 6, size=(L2, C))          # a different level: the merge has to move the mean
                sa, sb = ChannelStats(C, L1), ChannelStats(C, L2)
                for st, x in ((sa, x1), (sb, x2)):
                    cuts = [0, len(x) // 3, len(x) // 3 + 17, len(x)]
                    for lo, hi in zip(cuts, cuts[1:]):
                        st.push_data(x[lo:hi].astype(np.float32).ravel(), 0 if lo == 0 else lo, mode=mode)
                merged = (sa + sb) if order == "ab" else (sb + sa)
                obs = observe(merged, 1.0, 0.0, False)
                nbig += 1
                v.evaluations += 1
                for c in range(C):
                    acc = mo.merge(mo.of_seq([int(t) for t in x1[:, c]]), mo.of_seq([int(t) for t in x2[:, c]]))
                    if not mo.obs_ok_basic(acc, obs[c], Q, L1 + L2, int(0.01 * Q), int(0.02 * Q)):
                        v.violation("MergeOfLongStreams", "ChannelStats.__add__", {"kind": "bigmerge", "counts": [L1, L2], "C": C, "mode": mode, "order": order, "channel": c},
                                    obs[c], {"n": acc["n"], "mean": acc["s1"] / acc["n"], "var": mo.A(acc) / acc["n"] ** 2, "mn": acc["mn"], "mx": acc["mx"]})
                        break
    v.extra["long_stream_merges_judged_by_transcription"] = nbig
    v.traces += len(traces)
    v.extra["events_validated"] = sum(len(t["ev"]) for t in traces)
    v.sample({"cfg": traces[0]["cfg"], "events": traces[0]["ev"][:2]})
    mg = next(t for t in traces if t["cfg"]["kind"] == "merge")
    v.sample({"cfg": mg["cfg"], "last_event": mg["ev"][-1]})
    v.exhaustive = False


def replay(v, path) -> None:
    data = json.loads(open(path).read())
    for case in data["cases"][:2]:
        c = {k: case["cfg"][k] for k in case["cfg"] if k not in ("event_index", "step")}
        print("replayed:", job({"hists": [c]})[0]["ev"][-1]["obs"])
    run(v)
