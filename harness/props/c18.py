"""C18 - PSRFITS reads are position-independent and agree with the SIGPROC path.

(M) MC_PFits: for every S<=3, NSBLK<=4 and every in-range (start, n): the rows/offset arithmetic of
    read_block delivers exactly samples [start, start+n) (the pinned row count, computed from n alone,
    is refuted); the plan arithmetic is PlanArith's (C01).
(T) Search-mode PSRFITS files are synthesised with astropy from the model's integers (4/8 bit, Intensity /
    Stokes / Coherence, ascending or descending channels, several short sub-integrations, weights 0..2).
    Trace_PFits: whole read = calibrated model, read_block for EVERY (start, n), collapse / bandpass /
    read_chan / compute_stats over the reader = the Reductions definitions on the model stream, header
    fields plain numbers in SIGPROC units.  Trace_ReadPlan (the C01 trace spec, value-level stream):
    read_plan for every gulp.
"""
from __future__ import annotations

import json
import random

import numpy as np

from .. import pfits_fixture, pool, tlc, tracecheck
from ..common import seed
from . import c01

Q = 16
POLS = {"Intensity": (1, "INTEN"), "Stokes": (4, "STOKE"), "Coherence": (4, "AABBCRCI")}


def _q(a):
    return [int(round(float(x) * Q)) if np.isfinite(x) else 2_000_000_000 for x in np.asarray(a, dtype=np.float64).ravel()]


def _call(fn):
    try:
        return "ok", fn()
    except Exception as exc:  # noqa: BLE001
        return f"raise:{type(exc).__name__}:{str(exc)[:70]}", None


def job(spec):
    from sigpyproc.readers import PFITSReader
    d = pool.worker_scratch()
    out = []
    for fi, f in enumerate(spec["files"]):
        rng = np.random.default_rng(f["seed"])
        S, nsblk, C, nbits, pol, asc = f["S"], f["nsblk"], f["C"], f["nbits"], f["pol"], f["asc"]
        npol, ptype = POLS[pol]
        raw = rng.integers(0, 2 ** nbits if nbits < 8 else 200, size=(S, nsblk, npol, C))
        scl = rng.integers(1, 3, size=(S, npol, C))
        offs = rng.integers(0, 4, size=(S, npol, C))
        wts = rng.integers(0, 3, size=(S, C))
        wts[:, 0] = 1
        zo = int(f["zo"])
        df = f["df_milli"] / 1000.0
        fhi = f["fhi_milli"] / 1000.0
        freqs_desc = [fhi - i * df for i in range(C)]
        freqs = freqs_desc[::-1] if asc else freqs_desc
        path = d / f"c18_{spec['id']}_{fi}.sf"
        N = S * nsblk - int(f.get("short", 0))           # NSTOT: the last row may be only partly filled
        pfits_fixture.make_pfits(path, raw, scl, offs, wts, nbits=nbits, freqs=freqs, pol_type=ptype, tbin=f["tbin_micro"] / 1e6,
                                 zero_off=(int(zo) if f.get("zo_int") else float(zo)), nstot=N, chan_bw=f.get("bwmode"))
        hdr = {"raw": raw.tolist(), "scl": scl.tolist(), "offs": offs.tolist(), "wts": wts.tolist(), "zo": zo, "pol": pol,
               "ascending": bool(asc), "S": S, "nsblk": nsblk, "C": C, "nbits": nbits, "fhi_milli": f["fhi_milli"],
               "df_milli": f["df_milli"], "tbin_micro": f["tbin_micro"], "nstot": N}
        ev, plans = [], []
        oc, fil = _call(lambda: PFITSReader(str(path)))
        if fil is None:
            out.append({"hdr": hdr, "ev": [], "plans": [], "cfg": dict(f), "precondition": f"open failed: {oc}"})
            continue
        oc, blk = _call(lambda: fil.read_block(0, N))
        if blk is None:
            out.append({"hdr": hdr, "ev": [], "plans": [], "cfg": dict(f), "precondition": f"whole read failed: {oc}"})
            continue
        ev.append({"a": "whole", "outcome": "ok", "nsamples": int(fil.header.nsamples), "valsq": _q(np.asarray(blk.data).T)})
        h = fil.header
        plain = all(isinstance(getattr(h, k), (int, float, np.integer, np.floating)) and not hasattr(getattr(h, k), "unit")
                    for k in ("fch1", "foff", "tsamp", "tstart", "nchans", "nbits", "nsamples"))

        def num(x):
            return float(getattr(x, "value", x))
        from astropy.io import fits as _fits
        with _fits.open(str(path)) as hd:
            imjd, smjd, offs = int(hd[0].header["STT_IMJD"]), int(hd[0].header["STT_SMJD"]), float(hd[0].header["STT_OFFS"])
        hdr["stt_offs_us"] = int(round(offs * 1e6))
        ev.append({"a": "header", "outcome": "ok", "plain": bool(plain), "nchans": int(h.nchans), "nsamples": int(h.nsamples),
                   "tstart_off_us": int(round(((num(h.tstart) - imjd) * 86400.0 - smjd) * 1e6)),
                   "nbits": int(h.nbits), "fch1_milli": int(round(num(h.fch1) * 1000)), "foff_milli": int(round(num(h.foff) * 1000)),
                   "tsamp_micro": int(round(num(h.tsamp) * 1e6))})
        for s in range(0, N):
            for n in range(1, N - s + 1):
                if f["quick"] and (s * 7 + n) % 3 and not (s % nsblk and (s + n) % nsblk):
                    continue
                oc, b = _call(lambda: fil.read_block(s, n))
                ev.append({"a": "block", "start": s, "n": n, "outcome": oc, "shape": [int(x) for x in np.asarray(b.data).shape] if b is not None else [],
                           "valsq": _q(np.asarray(b.data).T) if b is not None else [],
                           "tstart_off_us": int(round((num(b.header.tstart) - num(h.tstart)) * 86400e6)) if b is not None else 0})
                if (s + n) % 4 == 1 and C >= 2:        # the same request restricted to a sub-band given by its first-channel frequency
                    c0 = (s + 2 * n) % C
                    mm = 1 + (s + n) % (C - c0)
                    oc2, b2 = _call(lambda: fil.read_block(s, n, fch1=num(h.fch1) + c0 * num(h.foff), nchans=mm))
                    ev.append({"a": "subblock", "start": s, "n": n, "c0": c0, "m": mm, "outcome": oc2,
                               "shape": [int(x) for x in np.asarray(b2.data).shape] if b2 is not None else [],
                               "valsq": _q(np.asarray(b2.data).T) if b2 is not None else []})
                    if b2 is not None:
                        try:
                            np.asarray(b2.data)[...] = -777.0
                        except (ValueError, TypeError):
                            pass
                if b is not None:         # a block belongs to its caller: scribbling on it must not show in any later read
                    try:
                        np.asarray(b.data)[...] = -777.0
                    except (ValueError, TypeError):
                        pass
        for (s, n, gulp) in f["reduce"]:
            for op in ("collapse", "bandpass", "chan", "stats"):
                e = {"a": "reduce", "op": op, "start": s, "n": n, "gulp": gulp, "ch": (s + gulp) % C, "valsq": [], "chans": []}
                kw = {"gulp": gulp, "start": s, "nsamps": n, "quiet": True}
                if op == "collapse":
                    oc, r = _call(lambda: fil.collapse(**kw))
                elif op == "bandpass":
                    oc, r = _call(lambda: fil.bandpass(**kw))
                elif op == "chan":
                    oc, r = _call(lambda: fil.read_chan(e["ch"], **kw))
                else:
                    oc, r = _call(lambda: fil.compute_stats_basic(**kw))
                    if oc == "ok":
                        st = fil.chan_stats
                        e["chans"] = [{"count": int(st.moments["count"][i]), "mnq": _q([st.minima[i]])[0], "mxq": _q([st.maxima[i]])[0]}
                                      for i in range(C)]
                if r is not None:
                    e["valsq"] = _q(r.data)
                e["outcome"] = oc
                ev.append(e)
        # read_plan for every gulp (value-level stream for the C01 trace spec); integer streams only
        if pol != "Coherence":
            W = [int(x) for x in np.asarray(blk.data).T.ravel()]
            for (gulp, s, n, skip) in f["plans"]:
                pev = c01.record_plan(fil, gulp, s, n, skip)
                plans.append({"hdr": {"files": [], "nbits": 32, "nchans": C, "vals": W, "novals": False, "N": N, "gulp": gulp, "start": s, "nsamps": n,
                                      "skip": skip}, "ev": pev, "plan": {"gulp": gulp, "start": s, "nsamps": n, "skip": skip}})
        out.append({"hdr": hdr, "ev": ev, "plans": plans, "cfg": dict(f), "precondition": "ok"})
    return out


def run(v) -> None:
    rng = random.Random(seed())
    quick = v.tier == "quick"
    v.rule = "reads distinct by (file layout, request); non-trivial = a request not aligned to sub-integration boundaries, or >= 2 plan blocks"
    v.assumptions += ["files synthesised with astropy.io.fits from the model's integers (primary header cloned from the repository fixture)",
                      "layouts for which the whole-file read fails are counted as 'precondition false' (the property is conditional on it)",
                      "Coherence files: the 1/sqrt(2) factor is compared with the bracket 0.7071..0.7072; read_plan traces use integer streams only"]
    v.add_tlc(tlc.must_pass(tlc.run("MC_PFits", "MC_PFits_fixed.cfg", workers=4), "MC_PFits"), "MC_PFits")
    tlc.must_fail(tlc.run("MC_PFits", "MC_PFits_pinned.cfg", workers=2), "pinned row count", "PositionIndependent")
    files = []
    layouts = [(p, a, nb) for p in POLS for a in (False, True) for nb in (4, 8)]
    for i, (pol, asc, nbits) in enumerate(layouts if not quick else layouts[::1]):
        for rep in range(1 if quick else 7):
            S, nsblk = rng.choice([(2, 4), (3, 4), (3, 2), (2, 6)])
            short = rng.randrange(1, nsblk) if len(files) % 2 else 0
            N = S * nsblk - short
            red = []
            for _ in range(3 if quick else 8):
                s = rng.randrange(0, N - 1)
                red.append((s, rng.randrange(1, N - s + 1), rng.choice([1, 3, nsblk, N + 1])))
            plans = [(g, 0, N, 0) for g in range(1, N + 2)]
            for _ in range(6 if quick else 25):
                s = rng.randrange(0, N - 1)
                n = rng.randrange(1, N - s + 1)
                g = rng.randrange(1, n + 2)
                plans.append((g, s, n, rng.choice([0, 0, min(g, n) // 2])))
            files.append({"seed": seed() * 43 + len(files), "S": S, "nsblk": nsblk, "C": 4, "nbits": nbits, "pol": pol, "asc": asc,
                          "zo": rng.choice([0, 2, 3] if nbits == 4 else [0, 2, 128, 100]), "zo_int": rng.random() < 0.5, "short": short, "bwmode": (None, "abs", "neg")[len(files) % 3], "fhi_milli": 1400000, "df_milli": rng.choice([1000, 500, 2000]),
                          "tbin_micro": rng.choice([1000, 64, 512]), "reduce": red, "plans": plans, "quick": quick})
    specs = [{"id": i, "files": files[i::12]} for i in range(12)]
    res = [t for r in pool.pmap(job, specs, workers=12) for t in r]
    pre_false = [t for t in res if t["precondition"] != "ok"]
    ok = [t for t in res if t["precondition"] == "ok"]
    v.extra["files"] = len(res)
    v.extra["precondition_false"] = [{"layout": {k: t["cfg"][k] for k in ("pol", "asc", "nbits", "S", "nsblk")}, "why": t["precondition"]} for t in pre_false]
    nev = 0
    for t in ok:
        for e in t["ev"]:
            nev += 1
            v.evaluations += 1
            if e["a"] == "block" and (e["start"] % t["cfg"]["nsblk"] or (e["start"] + e["n"]) % t["cfg"]["nsblk"]):
                v.nontrivial.add((t["cfg"]["seed"], e["start"], e["n"]))
    keys = ("a", "outcome", "nsamples", "valsq", "start", "n", "shape", "op", "ch", "chans", "plain", "nchans", "nbits", "fch1_milli",
            "foff_milli", "tsamp_micro", "tstart_off_us", "c0", "m")
    dflt = {"nsamples": 0, "valsq": [], "start": 0, "n": 1, "shape": [], "op": "", "ch": 0, "chans": [], "plain": True, "nchans": 0, "nbits": 0,
            "fch1_milli": 0, "foff_milli": 0, "tsamp_micro": 0, "tstart_off_us": 0, "c0": 0, "m": 1}
    traces = [{"hdr": t["hdr"], "ev": [{k: e.get(k, dflt.get(k)) for k in keys} for e in t["ev"]], "full": t} for t in ok]
    for tr, pos in tracecheck.validate("Trace_PFits", traces, verdict=v, label="PSRFITS reads", chunk=4, timeout=3000):
        t = tr["full"]
        e = t["ev"][abs(pos) - 1]
        cfg = {k: t["cfg"][k] for k in ("pol", "asc", "nbits", "S", "nsblk", "C", "zo", "df_milli")}
        cfg.update({k: e[k] for k in ("a", "start", "n", "op", "gulp", "c0", "m") if k in e})
        if e["a"] == "block":
            cfg["aligned"] = not (e["start"] % t["cfg"]["nsblk"] or (e["start"] + e["n"]) % t["cfg"]["nsblk"])
        clause = {"whole": "WholeIsCalibratedModel", "block": "BlockIsSliceOfWhole", "reduce": "ReductionEqualsSigprocPath",
                  "header": "HeaderPlainNumbersSigprocUnits", "subblock": "SubBandBlockIsSliceOfWhole"}[e["a"]]
        if e["outcome"] != "ok":
            clause = "MustNotRaise"
        site = {"whole": "PFITSReader.read_block(0, N)", "block": "PFITSReader.read_block", "subblock": "PFITSReader.read_block(fch1, nchans)", "header": "Header.from_pfits",
                "reduce": "Filterbank." + {"collapse": "collapse", "bandpass": "bandpass", "chan": "read_chan", "stats": "compute_stats_basic"}.get(e.get("op", ""), "")
                + " over PFITSReader"}[e["a"]]
        v.violation(clause, site, cfg, {k: (e[k][:10] if isinstance(e[k], list) else e[k]) for k in e if k not in ("a",)},
                    "PFits!WholeVals / Reductions (Trace_PFits!EvOK)")
    # read_plan through the C01 trace spec
    ptraces = [p for t in ok for p in t["plans"]]
    for p in ptraces:
        v.evaluations += 1
        if sum(1 for e in p["ev"] if e["e"] == "yield") >= 2:
            v.nontrivial.add(json.dumps(p["plan"]) + str(len(p["hdr"]["vals"])))

    def on_reject(tr, pos):
        e = tr["ev"][pos - 1]
        cfg = dict(tr["plan"], N=tr["hdr"]["N"], event_index=pos)
        v.violation({"reject": "RejectOnlyWhenAllowed", "yield": "BlockMatchesStream", "done": "DoneOnlyWhenComplete",
                     "fail": "NoFailureAfterAccept"}[e["e"]], "PFITSReader.read_plan", cfg,
                    {k: (e[k][:12] if isinstance(e[k], list) else e[k]) for k in e}, "a step of ReadPlan's property-level layer")
        return None
    tracecheck.validate_total("Trace_ReadPlan", ptraces, on_reject, verdict=v, label="PFITS read_plan", chunk=1500)
    v.traces += nev + len(ptraces)
    if ok:
        t = ok[0]
        v.sample({"layout": {k: t["cfg"][k] for k in ("pol", "asc", "nbits", "S", "nsblk")}, "events": [{k: (e[k][:8] if isinstance(e[k], list) else e[k]) for k in e} for e in t["ev"][:3]]})
    else:
        v.sample({"note": "no layout satisfied the precondition"})


def replay(v, path) -> None:
    print(open(path).read()[:1500])
    run(v)
