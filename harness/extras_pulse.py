"""Extras: PulseExtractor window arithmetic bound to the code (see extras.py)."""
from __future__ import annotations

import random

import numpy as np

from . import common, fixtures, tlc, tracecheck
from .common import scratch


def run(obs: list) -> dict:
    from sigpyproc.readers import PulseExtractor
    out = {"module": "PulseExtractor", "tlc": [], "traces": 0, "rejected": 0}
    out["tlc"].append(tlc.must_pass(tlc.run("MC_PulseExtractor", "MC_PulseExtractor.cfg", workers=4, timeout=1800), "MC_PulseExtractor").distinct)
    rng = random.Random(common.seed())
    d = scratch() / "pulse"
    d.mkdir(exist_ok=True)
    traces = []
    for fi in range(6):
        N, C = rng.choice([40, 64, 100]), rng.choice([2, 4])
        data = np.array([[rng.randrange(0, 200) for _ in range(C)] for _ in range(N)], dtype=np.int64)
        p = d / f"px_{fi}.fil"
        fixtures.write_fil(p, data.ravel(), C, 8, fch1=float(C + 4), foff=-1.0, tsamp=4.148808)
        ev = []
        for _ in range(12):
            toa, w, dm, mn = rng.randrange(0, N), rng.choice([1, 2, 3, 5]), rng.choice([0.0, 0.1, 0.3]), rng.choice([1, 4, 16])
            e = {"toa": toa, "w": w, "mn": mn, "md": 0, "nsamps": 0, "nstart": 0, "toa_block": 0, "nstart_file": 0, "nsamps_file": 0,
                 "shape": [], "block": []}
            try:
                px = PulseExtractor(str(p), toa, w, dm, min_nsamps=mn)
                e["md"] = int(px.disp_delay) - 5 * w
                blk = px.get_data()
                a = np.asarray(blk.data)
                e.update({"nsamps": int(px.nsamps), "nstart": int(px.nstart), "toa_block": int(px.pulse_toa_block),
                          "nstart_file": int(px.nstart_file), "nsamps_file": int(px.nsamps_file), "shape": [int(x) for x in a.shape],
                          "block": [[int(round(float(v))) for v in row] for row in a], "outcome": "ok"})
            except Exception as exc:  # noqa: BLE001
                e["outcome"] = f"raise:{type(exc).__name__}:{str(exc)[:60]}"
            ev.append(e)
        traces.append({"hdr": {"N": N, "C": C, "vals": [int(x) for x in data.ravel()]}, "ev": ev})
    for tr, pos in tracecheck.validate("Trace_PulseExtractor", traces, chunk=10):
        e = tr["ev"][abs(pos) - 1]
        out["rejected"] += 1
        obs.append({"module": "PulseExtractor", "site": "PulseExtractor.get_data", "cfg": {k: e[k] for k in ("toa", "w", "mn", "md")} | {"N": tr["hdr"]["N"]},
                    "observed": {k: e[k] for k in ("outcome", "nsamps", "nstart", "nstart_file", "nsamps_file", "shape")},
                    "what": "window quantities / sample placement differ from PulseExtractor.tla"})
    out["traces"] = sum(len(t["ev"]) for t in traces)
    return out
