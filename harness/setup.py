"""./check --setup : build/verify the framework from files on disk only (offline)."""
from __future__ import annotations

import sys
import time

from . import tlc
from .common import SPEC, MachineryFailure


def main() -> int:
    t0 = time.time()
    try:
        mods = sorted(p for p in SPEC.glob("*.tla"))
        # modules that need a TRACE_FILE / constants at parse time are still parsed by SANY (no evaluation)
        for m in mods:
            tlc.sany(m)
        print(f"setup: SANY parsed {len(mods)} modules")
        res = tlc.must_pass(tlc.run("MC_Bits", "MC_Bits.cfg", workers=4), "MC_Bits")
        print(f"setup: TLC smoke run ok ({res.distinct} states)")
        import sigpyproc  # noqa: F401
        from sigpyproc.core import kernels  # noqa: F401  (compiles the eagerly typed kernels into /verif/.cache)
        from sigpyproc.readers import FilReader  # noqa: F401
        print(f"setup: sigpyproc imports from {sigpyproc.__file__}")
    except MachineryFailure as exc:
        print(f"MACHINERY-FAILURE setup: {exc}", file=sys.stderr)
        return 2
    print(f"setup done in {time.time() - t0:.1f}s")
    return 0
