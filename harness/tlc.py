"""Run TLC / SANY and parse what they print."""
from __future__ import annotations

import os
import re
import subprocess
import time
from dataclasses import dataclass, field
from pathlib import Path

from .common import SPEC, MachineryFailure, scratch, seed

JAR = "/opt/veriftools/tla/tla2tools.jar:/opt/veriftools/tla/CommunityModules-deps.jar"


@dataclass
class TLCResult:
    ok: bool
    generated: int
    distinct: int
    wall: float
    out: str
    cmd_short: str
    error: str = ""
    violated: str = ""  # name of violated invariant / property, "deadlock", or ""
    printed: list[str] = field(default_factory=list)
    coverage: dict = field(default_factory=dict)


_counter = 0


def run(module: str, cfg: str | None = None, *, workers: int | str = "auto", env: dict | None = None,
        timeout: int = 1800, simulate: str | None = None, depth: int | None = None,
        deadlock: bool = False, coverage: bool = False, extra: list[str] | None = None,
        heap: str = "8g", dfs: bool = False, cwd: Path | None = None, lib: bool = False) -> TLCResult:
    """Run TLC on spec/<module>.tla with spec/<cfg>. Never raises on a property violation;
    raises MachineryFailure on parse/semantic errors or timeouts."""
    global _counter
    _counter += 1
    meta = scratch() / f"tlc_{_counter}"
    meta.mkdir(parents=True, exist_ok=True)
    cfg = cfg or f"{module}.cfg"
    # ParallelGC costs 2-3x wall time in this VM (futex contention); SerialGC is the fastest here
    jopts = [f"-Xmx{heap}", "-Xss256m", "-XX:+UseSerialGC", "-XX:-UsePerfData"]   # deep RECURSIVE operators (linear folds over traces)
    if dfs:
        jopts.append("-Dtlc2.tool.queue.IStateQueue=StateDeque")
    if lib:       # generated wrapper modules live in the scratch directory; the specification itself in spec/
        jopts.append(f"-DTLA-Library={SPEC}")
    cmd = ["java", *jopts, "-cp", JAR, "tlc2.TLC", "-config", cfg, "-metadir", str(meta),
           "-noGenerateSpecTE", "-workers", str(workers), "-seed", str(seed() or 1)]
    if not deadlock:
        cmd.append("-deadlock")  # -deadlock DISABLES deadlock checking
    if coverage:
        cmd += ["-coverage", "1"]
    if simulate is not None:
        cmd += ["-simulate", simulate]
    if depth is not None:
        cmd += ["-depth", str(depth)]
    if extra:
        cmd += extra
    cmd.append(module)
    e = dict(os.environ)
    if env:
        e.update({k: str(v) for k, v in env.items()})
    t0 = time.time()
    try:
        p = subprocess.run(cmd, cwd=str(cwd or SPEC), env=e, capture_output=True, text=True,
                           timeout=timeout, check=False)
    except subprocess.TimeoutExpired as exc:
        raise MachineryFailure(f"TLC timed out after {timeout}s on {module}/{cfg}") from exc
    wall = time.time() - t0
    out = p.stdout + p.stderr
    gen = dist = 0
    for m in re.finditer(r"(\d+) states generated, (\d+) distinct states found", out):
        gen, dist = int(m.group(1)), int(m.group(2))
    if simulate is not None:
        m = re.search(r"The number of states generated: (\d+)", out)
        if m:
            gen = dist = int(m.group(1))
    violated = ""
    m = re.search(r"Invariant (\S+) is violated", out)
    if m:
        violated = m.group(1)
    elif "Deadlock reached" in out:
        violated = "deadlock"
    elif re.search(r"Temporal properties were violated", out):
        violated = "temporal"
    else:
        m = re.search(r"Action property .* is violated", out)
        if m:
            violated = "action-property"
        elif re.search(r"The postcondition|Postcondition .* violated|postcondition", out) and \
                re.search(r"Error:.*[Pp]ostcondition", out):
            violated = "postcondition"
    err = ""
    if not violated:
        m = re.search(r"^Error: (.*)$", out, re.M)
        if m or p.returncode not in (0,):
            err = (m.group(1) if m else f"exit {p.returncode}")
            # gather a few lines of context
            idx = out.find("Error:")
            err = out[idx: idx + 1500] if idx >= 0 else err
    printed = []
    for line in out.splitlines():
        if line.startswith("\"") or line.startswith("<<") or line.startswith("["):
            printed.append(line)
    cov = {}
    if coverage:
        for m in re.finditer(r"^<(\w+) line (\d+), col \d+ to line \d+, col \d+ of module (\w+)>: (\d+):(\d+)",
                             out, re.M):
            cov[f"{m.group(3)}!{m.group(1)}"] = (int(m.group(4)), int(m.group(5)))
    res = TLCResult(ok=(not violated and not err), generated=gen, distinct=dist, wall=wall, out=out,
                    cmd_short=f"tlc -config {cfg} {module}" + (f" -simulate {simulate}" if simulate else ""),
                    error=err, violated=violated, printed=printed, coverage=cov)
    return res


def must_pass(res: TLCResult, what: str) -> TLCResult:
    """The model itself must satisfy its properties: anything else is a machinery failure."""
    if not res.ok:
        tail = res.out[-3000:]
        raise MachineryFailure(f"TLC model run failed for {what}: violated={res.violated!r} "
                               f"error={res.error[:800]!r}\n{tail}")
    if res.distinct < 1:
        raise MachineryFailure(f"TLC explored no states for {what}\n{res.out[-2000:]}")
    return res


def must_fail(res: TLCResult, what: str, expect: str | None = None) -> TLCResult:
    """Spec-level negative control: TLC must refute the named wrong variant."""
    if res.error and not res.violated:
        raise MachineryFailure(f"negative control {what} errored instead of being refuted: {res.error[:800]}")
    if not res.violated:
        raise MachineryFailure(f"negative control {what} was NOT refuted by TLC (vacuous model?)")
    if expect and res.violated != expect:
        raise MachineryFailure(f"negative control {what}: expected {expect} violated, got {res.violated}")
    return res


def sany(module_path: Path) -> None:
    p = subprocess.run(["java", "-cp", JAR, "tla2sany.SANY", module_path.name], cwd=str(module_path.parent),
                       capture_output=True, text=True, check=False, timeout=120)
    out = p.stdout + p.stderr
    if p.returncode != 0 or "*** Errors" in out or "Fatal errors" in out or "Could not find module" in out:
        raise MachineryFailure(f"SANY rejected {module_path.name}:\n{out[-2000:]}")
