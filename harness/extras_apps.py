"""extras: the command-line layer (sigpyproc.apps) bound to the library operations through the refinement map of Apps.tla.
The real click entry points are run in-process (click.testing.CliRunner); the files they leave behind are validated as events of the
library operation Apps!Lib names: Trace_Transforms for spp_extract, an independent byte-level comparison for spp_header update."""
from __future__ import annotations

import random

import numpy as np

from . import common, fixtures, tlc, tracecheck
from .common import scratch


def run(obs: list) -> dict:
    from click.testing import CliRunner
    from sigpyproc.apps import spp_extract, spp_header
    from . import transforms
    from .props import c07
    out = {"module": "Apps", "tlc": [], "traces": 0, "rejected": 0}
    out["tlc"].append(tlc.must_pass(tlc.run("Apps", "MC_Apps.cfg", workers=1), "Apps refinement map").distinct)
    rng = random.Random(common.seed())
    d = scratch() / "apps"
    d.mkdir(parents=True, exist_ok=True)
    runner = CliRunner()
    traces = []
    for ti in range(6):
        nbits, c = rng.choice([(8, 4), (2, 4), (32, 2), (8, 8)])
        n = rng.randrange(6, 12)
        top = {2: 4, 8: 256, 32: 256}[nbits]
        data = (np.arange(n * c, dtype=np.int64) * 7 % top).reshape(n, c)
        names = fixtures.write_set(d, f"app_{ti}", data, nbits, [n], fch1=float(max(8, c + 4)), foff=-1.0)
        raw = open(names[0], "rb").read()
        files = [list(raw[-(n * c * nbits // 8):])]
        hdr = {"files": files, "nbits": nbits, "nchans": c, "vals": [int(x) for x in data.ravel()], "N": n}
        recs = []

        def call(op, argv, outs, **params):
            for o in outs:
                o.unlink(missing_ok=True)
            r = runner.invoke(spp_extract.main, argv)
            rec = {"op": op, "gulp": params.pop("gulp", 16384), "start": params.pop("start", 0), "nsamps": params.pop("nsamps", n),
                   "params": params, "del": [0] * c, "outcome": "ok" if r.exit_code == 0 else f"raise:{type(r.exception).__name__}",
                   "msg": str(r.exception)[:100] if r.exception else "", "argv": argv}
            rec["outs"] = [transforms.read_output(o) if o.exists() else {"ok": False} for o in outs]
            recs.append(rec)
        start = rng.randrange(0, n - 1)
        ns = rng.randrange(1, n - start + 1)
        o1 = d / f"app_{ti}_samps.fil"
        call("extract_samps", ["samples", names[0], "-s", str(start), "-n", str(ns), "-g", str(rng.choice([1, 2, 100])), "-o", str(o1)], [o1],
             start=start, nsamps=ns, gulp=1)
        recs[-1]["gulp"] = int(recs[-1]["argv"][recs[-1]["argv"].index("-g") + 1])
        chans = sorted(rng.sample(range(c), 2))
        base = d / f"app_{ti}_ch"
        call("extract_chans", ["channels", names[0], *sum((["-c", str(k)] for k in chans), []), "-o", str(base)],
             [d / f"app_{ti}_ch_chan{k:04d}.tim" for k in chans], chans=chans)
        if c >= 4 and (2 * nbits) % 8 == 0:
            bb = d / f"app_{ti}_bd"
            call("extract_bands", ["bands", names[0], "-s", "0", "-n", str(c), "-c", "2", "-o", str(bb)],
                 [d / f"app_{ti}_bd_sub{k:02d}.fil" for k in range(c // 2)], chanstart=0, nchans=c, chanpersub=2)
        # spp_header update: exactly the key's bytes change (C05's edit clause, through the CLI)
        before = open(names[0], "rb").read()
        r = runner.invoke(spp_header.main, ["update", names[0], "-i", "source_name", "-v", "apps"[: rng.randrange(1, 5)]])
        after = open(names[0], "rb").read()
        hb, lb = fixtures.parse_sigproc(before)
        ok_edit = True
        if r.exit_code == 0:
            ha, la = fixtures.parse_sigproc(after)
            ok_edit = (after[la:] == before[lb:]) and all(ha.get(k) == hb.get(k) for k in hb if k != "source_name")
        else:
            ok_edit = after == before
        if not ok_edit:
            obs.append({"module": "Apps", "site": "spp_header update", "cfg": {"file": ti}, "what": "the edit changed more than its key (or failed and left the file changed)"})
        traces.append({"hdr": hdr, "ev": [c07.to_event(rec, c) for rec in recs], "recs": recs})
    rej = tracecheck.validate("Trace_Transforms", traces, label="apps")
    out["traces"] = sum(len(t["ev"]) for t in traces)
    out["rejected"] = len(rej)
    for tr, pos in rej[:4]:
        rec = tr["recs"][abs(pos) - 1]
        obs.append({"module": "Apps", "site": "spp_extract " + rec["argv"][0], "cfg": {"argv": rec["argv"][2:]}, "event": abs(pos),
                    "observed": {"outcome": rec["outcome"], "msg": rec["msg"], "outs_ok": [o.get("ok") for o in rec["outs"]]},
                    "what": "the files the command leaves behind are not what Apps!Lib(command) defines"})
    return out
