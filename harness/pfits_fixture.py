"""Synthesise small search-mode PSRFITS files with astropy.io.fits from the model's integers.
The primary header is cloned from the repository's own fixture (tests/data/parkes_4bit.sf); the SUBINT table
is built from scratch: DAT_FREQ, DAT_WTS, DAT_OFFS, DAT_SCL, DATA (bytes; nbits packed along the flattened
(time, pol, chan) order, most significant field first)."""
from __future__ import annotations

from pathlib import Path

import numpy as np
from astropy.io import fits

from .common import REPO

_PRIMARY = None


def _primary():
    global _PRIMARY
    if _PRIMARY is None:
        with fits.open(REPO / "tests" / "data" / "parkes_4bit.sf") as h:
            _PRIMARY = h[0].header.copy()
    return _PRIMARY.copy()


def pack_msb(vals: np.ndarray, nbits: int) -> np.ndarray:
    if nbits == 8:
        return vals.astype(np.uint8)
    fact = 8 // nbits
    v = vals.astype(np.int64).reshape(-1, fact)
    out = np.zeros(v.shape[0], dtype=np.int64)
    for j in range(fact):
        out |= (v[:, j] & ((1 << nbits) - 1)) << ((fact - 1 - j) * nbits)
    return out.astype(np.uint8)


def make_pfits(path, raw, scl, offs, wts, *, nbits, freqs, pol_type, tbin=0.001, zero_off=0.0, nstot=None, chan_bw=None):
    """raw: int array (S, NSBLK, npol, C); scl, offs: (S, npol, C); wts: (S, C); freqs: (C,) MHz in file order."""
    raw = np.asarray(raw)
    S, nsblk, npol, C = raw.shape
    nbytes = nsblk * npol * C * nbits // 8
    cols = [
        fits.Column(name="INDEXVAL", format="1D", array=np.arange(S, dtype=np.float64)),
        fits.Column(name="TSUBINT", format="1D", unit="s", array=np.full(S, nsblk * tbin)),
        fits.Column(name="OFFS_SUB", format="1D", unit="s", array=(np.arange(S) + 0.5) * nsblk * tbin),
        fits.Column(name="AUX_DM", format="1D", array=np.zeros(S)),
        fits.Column(name="AUX_RM", format="1D", array=np.zeros(S)),
        fits.Column(name="DAT_FREQ", format=f"{C}D", unit="MHz", array=np.tile(np.asarray(freqs, dtype=np.float64), (S, 1))),
        fits.Column(name="DAT_WTS", format=f"{C}E", array=np.asarray(wts, dtype=np.float32)),
        fits.Column(name="DAT_OFFS", format=f"{npol * C}E", array=np.asarray(offs, dtype=np.float32).reshape(S, npol * C)),
        fits.Column(name="DAT_SCL", format=f"{npol * C}E", array=np.asarray(scl, dtype=np.float32).reshape(S, npol * C)),
        fits.Column(name="DATA", format=f"{nbytes}B", dim=f"({C},{npol},{nsblk * nbits // 8})",
                    array=np.stack([pack_msb(raw[s].ravel(), nbits).reshape(nsblk * nbits // 8, npol, C) for s in range(S)])),
    ]
    tb = fits.BinTableHDU.from_columns(cols, name="SUBINT")
    h = tb.header
    step = float(freqs[1] - freqs[0]) if C > 1 else -1.0
    # CHAN_BW is a width: writers differ on whether it carries the sign of the DAT_FREQ step (the channel order is DAT_FREQ's)
    chan_bw = step if chan_bw is None else (abs(step) if chan_bw == "abs" else -abs(step) if chan_bw == "neg" else step)
    for k, val in [("INT_TYPE", "TIME"), ("INT_UNIT", "SEC"), ("SCALE", "FluxDen"), ("NPOL", npol), ("POL_TYPE", pol_type),
                   ("TBIN", tbin), ("NBIN", 1), ("NBIN_PRD", 0), ("PHS_OFFS", 0.0), ("NBITS", nbits), ("ZERO_OFF", zero_off),
                   ("SIGNINT", 0), ("NSUBOFFS", 0), ("NCHAN", C), ("CHAN_BW", chan_bw), ("DM", 0.0), ("RM", 0.0), ("NCHNOFFS", 0),
                   ("NSBLK", nsblk), ("NSTOT", S * nsblk if nstot is None else int(nstot)), ("EPOCHS", "VALID")]:
        h[k] = val
    pri = _primary()
    pri["OBSNCHAN"] = C
    pri["OBSFREQ"] = float(np.mean(freqs))
    pri["OBSBW"] = chan_bw * C
    fits.HDUList([fits.PrimaryHDU(header=pri), tb]).writeto(Path(path), overwrite=True)
    return path
