"""Demonstrates the binding between the specification and the code (negative controls on TRACES):
an execution of the real library is recorded, TLC accepts it, then ONE recorded field is corrupted and
TLC must reject the trace at that event.  A control that is not detected makes ./check --selftest exit 2."""
from __future__ import annotations

import copy
import random
import sys

import numpy as np

from . import common, fixtures, tracecheck
from .common import MachineryFailure, scratch


def _expect(module, good, bad, where, at=None):
    rej = tracecheck.validate(module, [good])
    if rej:
        raise MachineryFailure(f"selftest {where}: the untouched trace was rejected at {rej[0][1]}")
    rej = tracecheck.validate(module, [bad])
    if not rej:
        raise MachineryFailure(f"selftest {where}: the corrupted trace was ACCEPTED (binding broken)")
    if at is not None and abs(rej[0][1]) != at:
        raise MachineryFailure(f"selftest {where}: rejected at event {rej[0][1]}, expected {at}")
    print(f"selftest {where}: accepted as recorded, rejected when corrupted (event {abs(rej[0][1])})")


def main() -> int:
    try:
        from sigpyproc.readers import FilReader
        from .props import c01, c02, c10, c17
        d = scratch() / "selftest"
        d.mkdir(exist_ok=True)
        rng = random.Random(7)
        nrng = np.random.default_rng(7)
        # C01: one sample of the second block altered; then the reported count altered
        names, files, vals = c01.make_set(d, "st1", 9, 2, 8, [4, 5], nrng, "random")
        ev = c01.record_plan(FilReader(names), 4, 1, 7, 1)
        good = {"hdr": {"files": files, "nbits": 8, "nchans": 2, "vals": vals, "novals": False, "N": 9, "gulp": 4, "start": 1, "nsamps": 7, "skip": 1}, "ev": ev}
        bad = copy.deepcopy(good)
        bad["ev"][1]["vals"][3] ^= 1
        _expect("Trace_ReadPlan", good, bad, "C01 block content", at=2)
        bad = copy.deepcopy(good)
        bad["ev"][0]["n"] += 1
        _expect("Trace_ReadPlan", good, bad, "C01 reported count", at=1)
        # C02: reported position after a read altered
        st = c02.Stream(d, "st2", 8, 1, [3, 2, 4], rng)
        for op in [("seek", 2, 0), ("cread", 3), ("creadinto", 5), ("seek", -4, 1), ("cread", 2)]:
            st.apply(op)
        good = {"hdr": st.hdr(), "ev": st.events}
        bad = copy.deepcopy(good)
        bad["ev"][2]["pos"] += 1
        _expect("Trace_Stream", good, bad, "C02 stream position", at=3)
        bad = copy.deepcopy(good)
        bad["ev"][1]["out"][1] = (bad["ev"][1]["out"][1] + 1) % 256
        _expect("Trace_Stream", good, bad, "C02 byte across a file boundary", at=2)
        st.close()
        # C10: count after a merge altered
        tr = c10.job({"hists": [{"kind": "merge", "cls": "small", "mode": "full", "stream": [[1, 0], [3, 2], [2, 2], [0, 1], [3, 3]],
                                  "split": 2, "order": "ab", "parts_a": [1, 1], "parts_b": [2, 1]}]})[0]
        good = {"hdr": tr["hdr"], "ev": tr["ev"]}
        bad = copy.deepcopy(good)
        bad["ev"][-1]["obs"][0]["count"] -= 1
        _expect("Trace_Moments", good, bad, "C10 merged count", at=len(good["ev"]))
        bad = copy.deepcopy(good)
        bad["ev"][1]["obs"][1]["meanq"] += 60
        _expect("Trace_Moments", good, bad, "C10 running mean", at=2)
        # C17: one rotation altered
        tr = c17.job({"id": 0, "family": "A", "shapes": [(2, 2, 8)], "hists": [[("dm", 1), ("period", 2), ("dm", 0)]]})[0]
        good = {"hdr": tr["hdr"], "ev": tr["ev"]}
        bad = copy.deepcopy(good)
        bad["ev"][1]["rot"][1][1] = (bad["ev"][1]["rot"][1][1] + 1) % 8
        _expect("Trace_FoldedCube", good, bad, "C17 profile rotation", at=2)
    except MachineryFailure as exc:
        print(f"MACHINERY-FAILURE selftest: {exc}", file=sys.stderr)
        print(f"MACHINERY-FAILURE selftest: {str(exc)[:300]}")
        return 2
    print("selftest: all negative controls detected")
    return 0
