"""Run (part of) the repository's own test-suite under the external tracer and validate the recorded
read_plan skeletons with Trace_ReadPlan."""
from __future__ import annotations

import json
import os
import subprocess

from . import tracecheck
from .common import REPO, VERIF, MachineryFailure, scratch


def run(v, tests=("tests/test_base.py", "tests/test_readers.py", "tests/test_rfi.py", "tests/test_apps.py")) -> int:
    out = scratch() / "suite_traces.json"
    env = dict(os.environ)
    env["PYTHONPATH"] = f"{VERIF}{os.pathsep}{REPO}"
    env["VERIF_TRACE_OUT"] = str(out)
    env["SIGPYPROC3_VERIF"] = "1"
    p = subprocess.run(["/venv/bin/python", "-m", "pytest", "-q", "-p", "no:cacheprovider", "-p", "harness.tracer_plugin", *tests],
                       cwd=str(REPO), env=env, capture_output=True, text=True, timeout=1800, check=False)
    if not out.exists():
        raise MachineryFailure(f"the traced test run wrote no traces:\n{p.stdout[-1500:]}\n{p.stderr[-800:]}")
    recs = json.loads(out.read_text())
    traces = []
    for r in recs:
        if not r.get("ended"):
            continue                         # abandoned generators are prefixes; only complete executions are judged
        if not r.get("wellformed", True):
            continue                         # a deliberately corrupted file (trailing partial sample): outside C01's quantifier
        if r["hdr"]["nsamps"] < 1 or r["hdr"]["start"] + r["hdr"]["nsamps"] > r["hdr"]["N"]:
            continue                         # outside the quantifier of C01
        traces.append(r)

    def on_reject(tr, pos):
        e = tr["ev"][pos - 1]
        v.violation("RepositoryTestTraceIsABehaviour", f"{tr['cls']}.read_plan", {**{k: tr["hdr"][k] for k in ("N", "gulp", "start", "nsamps", "skip")},
                    "test": tr["test"], "event_index": pos, "regime": "suite"}, {k: e[k] for k in e if k != "vals"},
                    "a step of ReadPlan's property-level layer (skeleton trace)")
        return None
    slim = [{"hdr": t["hdr"], "ev": t["ev"], "cls": t["cls"], "test": t["test"]} for t in traces]
    tracecheck.validate_total("Trace_ReadPlan", slim, on_reject, verdict=v, label="repository test-suite read_plan skeletons", chunk=1500)
    v.extra["suite_read_plan_executions"] = len(recs)
    v.extra["suite_read_plan_validated"] = len(traces)
    v.extra["suite_multi_block"] = sum(1 for t in traces if sum(1 for e in t["ev"] if e["e"] == "yield") >= 2)
    return len(traces)
