"""Specification -> code direction: run a Gen_<Module> specification under TLC (exhaustive BFS to a fixed
depth, or -simulate), collect the behaviours it prints as JSON lines, hand them to an adapter."""
from __future__ import annotations

import json

from . import tlc
from .common import MachineryFailure, scratch

_k = 0


def generate(gen_module: str, const_defs: dict[str, str], cfg_lines: list[str], *, simulate: str | None = None,
             depth: int | None = None, verdict=None, label: str = "", timeout: int = 900) -> list[dict]:
    """const_defs: definitions written into a wrapper module (e.g. {"GenLens": "<<2, 0, 1>>"});
    cfg_lines: the cfg body (SPECIFICATION/CONSTANTS/INVARIANT lines)."""
    global _k
    _k += 1
    d = scratch() / f"gen_{_k}"
    d.mkdir(parents=True, exist_ok=True)
    name = f"MCG_{gen_module}_{_k}"
    body = [f"---- MODULE {name} ----", f"EXTENDS {gen_module}"] + [f"{k} == {v}" for k, v in const_defs.items()] + ["===="]
    (d / f"{name}.tla").write_text("\n".join(body) + "\n")
    (d / f"{name}.cfg").write_text("\n".join(cfg_lines) + "\n")
    res = tlc.run(name, f"{name}.cfg", workers=1, cwd=d, lib=True, simulate=simulate, depth=depth, timeout=timeout)
    if res.error or res.violated:
        raise MachineryFailure(f"behaviour generation failed for {gen_module}: {res.violated} {res.error[:800]}\n{res.out[-1500:]}")
    out = []
    for line in res.out.splitlines():
        if line.startswith('"{'):
            out.append(json.loads(json.loads(line)))
    if verdict is not None:
        verdict.add_tlc(res, f"behaviour generation {gen_module} {label}")
    return out
