"""(R) for Sigpyproc.tla: replay TLC-generated behaviours of the top-level composition into the real code."""
from __future__ import annotations

from pathlib import Path

import numpy as np

from . import fixtures, pool


class _Crash(BaseException):
    """stands for the process dying: nothing in the library catches a BaseException"""


def job(spec):
    from sigpyproc.io.fileio import FileWriter
    from sigpyproc.readers import FilReader
    d = pool.worker_scratch()
    out = []
    ow, oc = FileWriter.write, FileWriter.cwrite
    state = {"n": 0, "limit": None, "snaps": [], "name": None}

    def snap(self):
        raw = Path(self.files[0]).read_bytes()
        state["snaps"].append(raw)

    def write(self, bo):
        if state["limit"] is not None and state["n"] >= state["limit"]:
            raise _Crash
        r = ow(self, bo)
        state["n"] += 1
        snap(self)
        return r

    def cwrite(self, arr):
        if state["limit"] is not None and state["n"] >= state["limit"]:
            raise _Crash
        r = oc(self, arr)
        state["n"] += 1
        snap(self)
        return r
    FileWriter.write, FileWriter.cwrite = write, cwrite
    try:
        for bi, b in enumerate(spec["behs"]):
            nbits, c = b["nbits"], b["nchans"]
            sb = c * nbits // 8
            names = []
            for fi, fbytes in enumerate(b["fs"]):
                p = d / f"cr_{spec['id']}_{bi}_{fi}.fil"
                hdr = fixtures.default_header(c, nbits, fch1=float(max(8, c + 4)), foff=-1.0,
                                              tstart=50000.0 + 0.001 * sum(len(x) // sb for x in b["fs"][:fi]) / 86400.0,
                                              extra={"rawdatafile": "scan_" + "9" * (1 + 2 * fi) + ".fil"})
                p.write_bytes(fixtures.encode_header(hdr) + bytes(fbytes))
                names.append(str(p))
            keep = names
            dropped = False
            outname = str(d / f"cr_{spec['id']}_{bi}_out.fil")
            Path(outname).unlink(missing_ok=True)
            crashed = b["pc"] == "crashed"
            nsteps = len(b["hist"])                 # Prep + Steps (+ Return | Crash)
            nwrites_model = nsteps - 1              # everything before the final Return/Crash is one write each
            state.update(n=0, limit=(nwrites_model if crashed else None), snaps=[])
            rec = {"i": b["i"], "dropped_empty": dropped, "outcome": "ok"}
            try:
                fil = FilReader(keep)
                kw = dict(gulp=b["gulp"], start=b["start"], nsamps=b["nsamps"], quiet=True, outfile_name=outname)
                if b["op"] == "extract":
                    fil.extract_samps(b["start"], b["nsamps"], outfile_name=outname, gulp=b["gulp"], quiet=True)
                elif b["op"] == "invert":
                    fil.invert_freq(**kw)
                else:
                    fil.apply_channel_mask(np.array(b["mask"], dtype=bool), 1, **kw)
                fil._file.close()
            except _Crash:
                rec["outcome"] = "crash"
            except Exception as exc:  # noqa: BLE001
                rec["outcome"] = f"raise:{type(exc).__name__}:{str(exc)[:80]}"
            import gc
            gc.collect(1)                           # young generations only (a full collection costs 150 ms with numba loaded): whatever finalisers flush belongs to the surviving file
            disk = Path(outname).read_bytes() if Path(outname).exists() else b""
            hl = None
            if disk:
                try:
                    _, hl = fixtures.parse_sigproc(disk)
                except Exception:  # noqa: BLE001
                    hl = None
            rec.update(nwrites=state["n"], disk_len=len(disk), hdrlen=hl,
                       disk_data=list(disk[hl:]) if hl is not None else None,
                       snaps=[(list(s[hl:]) if hl is not None and len(s) >= hl else None) for s in state["snaps"]],
                       snap_lens=[len(s) for s in state["snaps"]])
            out.append(rec)
    finally:
        FileWriter.write, FileWriter.cwrite = ow, oc
    return out


def judge(v, b, rec, site):
    """compare one replayed behaviour with what the model says; returns True if it agreed.
    The model's grain (one write per planned block) is NOT demanded of the code - C20 does not pin it: the real call may
    put the same bytes on disk in more or fewer writes.  What is demanded: the file the call returns with IS the model's
    final file; every state the disk goes through, and whatever survives the injected crash, is the complete header
    followed by a prefix of the model's final data section; nothing is on disk before the header."""
    hl_m = b["hlen"]
    cfg = {"op": b["op"], "gulp": b["gulp"], "start": b["start"], "nsamps": b["nsamps"], "mask": b["mask"], "nbits": b["nbits"],
           "nchans": b["nchans"], "split_bytes": [len(x) for x in b["fs"]], "ends": b["pc"], "kind": "tlc-generated-composition"}
    final = b["final"][hl_m:]
    if rec["outcome"] not in ("ok", "crash"):
        v.violation("ReplayReturns", site, cfg, rec["outcome"], "the call returns")
        return False
    if b["pc"] == "returned" and rec["outcome"] != "ok":
        v.violation("ReplayReturns", site, cfg, rec["outcome"], "the call returns")
        return False
    if rec["disk_len"] == 0:
        # nothing on disk: only a crash before the first write explains it
        if rec["outcome"] == "crash" and rec["nwrites"] == 0:
            return True
        v.violation("ReplayNothingOnDisk", site, cfg, {"outcome": rec["outcome"], "writes": rec["nwrites"]}, "a header on disk after the first write")
        return False
    if rec["hdrlen"] is None:
        v.violation("ReplayHeaderFirst", site, cfg, {"disk_len": rec["disk_len"]}, "a complete header on disk")
        return False
    if rec["outcome"] == "ok" and rec["disk_data"] != final:
        v.violation("ReplayFinalBytes", site, cfg, {"data": rec["disk_data"][:32], "len": len(rec["disk_data"])},
                    {"data": final[:32], "len": len(final)})
        return False
    for s in [*rec["snaps"], rec["disk_data"]]:
        if s is None:
            v.violation("ReplayHeaderFirst", site, cfg, {"snapshot_lens": rec["snap_lens"]}, "a complete header after every write")
            return False
        if s != final[: len(s)]:
            v.violation("ReplayStepBytes", site, cfg, {"snapshot": s[:32], "len": len(s)}, {"model_final_prefix": final[: len(s)][:32]})
            return False
    lens = [len(s) for s in rec["snaps"]]
    if any(y < x for x, y in zip(lens, lens[1:])):
        v.violation("ReplayAppendOnly", site, cfg, {"after_each_write": lens}, "non-decreasing")
        return False
    return True


def same_grain(b, rec):
    """did the real call put the model's states on disk one for one (statistic only)"""
    want = [h["outlen"] - b["hlen"] for h in b["hist"] if h["pc"] == "stream"]
    return [len(s) for s in rec["snaps"] if s is not None] == want[: len(rec["snaps"])]
