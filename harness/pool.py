"""Process pool whose workers import the working tree of /repo (spawn, not fork: numba's
threading layer does not survive fork)."""
from __future__ import annotations

import multiprocessing as mp
import os
from concurrent.futures import ProcessPoolExecutor

from . import common


def _init(scratch_dir):
    common.setup_env()
    os.environ["NUMBA_NUM_THREADS"] = "2"
    os.environ["VERIF_POOL_SCRATCH"] = scratch_dir


JOB_LIMIT_S = int(os.environ.get("VERIF_JOB_LIMIT", "900" if os.environ.get("VERIF_TIER", "quick") == "quick" else "5400"))


def _guarded(arg):
    """one job under a time limit: a library call that loops for ever in Python code ends the job with CallTimeout, which ./check
    reports as a verdict (a loop inside compiled code cannot be interrupted this way and is left to the watchdog of ./check)"""
    fn, x = arg
    with common.time_limited(JOB_LIMIT_S):
        return fn(x)


def pmap(fn, items, workers: int = 12, chunksize: int = 1):
    items = list(items)
    if not items:
        return []
    if workers <= 1 or len(items) < 4:
        return [_guarded((fn, x)) for x in items]
    ctx = mp.get_context("spawn")
    with ProcessPoolExecutor(max_workers=min(workers, len(items)), mp_context=ctx,
                             initializer=_init, initargs=(str(common.scratch()),)) as ex:
        return list(ex.map(_guarded, [(fn, x) for x in items], chunksize=chunksize))


def worker_scratch():
    from pathlib import Path
    base = Path(os.environ.get("VERIF_POOL_SCRATCH") or common.scratch())
    d = base / f"w{os.getpid()}"
    d.mkdir(parents=True, exist_ok=True)
    return d
