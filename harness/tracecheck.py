"""Batch validation of recorded implementation traces against a Trace_<Module> TLA+ spec."""
from __future__ import annotations

import json
import re
from pathlib import Path

from . import tlc
from .common import MachineryFailure, scratch

_n = 0
INT_MAX = 2**31 - 1


CLAMP = 2_000_000_000


def _clamp(o):
    """Observed integers beyond TLC's 32-bit range (a misbehaving implementation can produce anything) are
    clamped to +-2e9: they then disagree with every value the specification computes, i.e. the event is
    rejected and reported as a violation rather than aborting the run."""
    if isinstance(o, bool) or o is None or isinstance(o, str):
        return o
    if isinstance(o, int):
        return max(-CLAMP, min(CLAMP, o))
    if isinstance(o, dict):
        return {k: _clamp(v) for k, v in o.items()}
    if isinstance(o, (list, tuple)):
        return [_clamp(v) for v in o]
    return o


def _check_json(o, path="$"):
    if isinstance(o, bool) or o is None or isinstance(o, str):
        return
    if isinstance(o, int):
        if abs(o) > INT_MAX:
            raise MachineryFailure(f"trace value out of TLC's 32-bit range at {path}: {o}")
        return
    if isinstance(o, float):
        raise MachineryFailure(f"float in trace at {path}: {o} (traces carry integers only)")
    if isinstance(o, dict):
        for k, v in o.items():
            _check_json(v, f"{path}.{k}")
        return
    if isinstance(o, (list, tuple)):
        for i, v in enumerate(o):
            _check_json(v, f"{path}[{i}]")
        return
    raise MachineryFailure(f"unsupported type in trace at {path}: {type(o)}")


def validate(module: str, traces: list[dict], *, cfg: str | None = None, chunk: int = 1500,
             extra_doc: dict | None = None, timeout: int = 1800, dfs: bool = False,
             verdict=None, label: str = "", cfg_text: str | None = None) -> list[tuple[dict, int]]:
    """Validate every trace (dict with 'hdr' and 'ev') with TLC. Returns the list of
    (trace, position) for rejected traces: position is the 1-based index of the first event
    that is NOT a step of the specification (the longest matched prefix has position-1 events)."""
    global _n
    rejected: list[tuple[dict, int]] = []
    for i in range(0, len(traces), chunk):
        part = traces[i:i + chunk]
        _n += 1
        f = scratch() / f"trace_{module}_{_n}.json"
        doc = {"traces": [{"id": k + 1, "hdr": t.get("hdr", {}), "ev": t["ev"]} for k, t in enumerate(part)]}
        if extra_doc:
            doc.update(extra_doc)
        doc = _clamp(doc)
        _check_json(doc)
        f.write_text(json.dumps(doc))
        if cfg_text is not None:      # per-run constants: the cfg is written next to the trace, the modules come from spec/
            cf = scratch() / f"{module}_{_n}.cfg"
            cf.write_text(cfg_text)
            res = tlc.run(module, cf.name, workers=1, env={"TRACE_FILE": str(f)}, timeout=timeout, dfs=dfs, cwd=scratch(), lib=True)
        else:
            res = tlc.run(module, cfg or f"{module}.cfg", workers=1, env={"TRACE_FILE": str(f)},
                          timeout=timeout, dfs=dfs)
        m = re.search(r'<<"VALIDATED", (\d+)>>', res.out)
        if (not m) and "Overflow when computing" in res.out:
            # an observed value so far from anything the specification computes that comparing it overflows TLC's 32-bit
            # integers: that event is not a step of the specification.  Locate it (bisect the batch, then read the position
            # TLC was evaluating from its error trace) and report it as a rejection - a verdict, not a machinery failure.
            f.unlink(missing_ok=True)
            if len(part) > 1:
                h = len(part) // 2
                for sub in (part[:h], part[h:]):
                    rejected += validate(module, sub, cfg=cfg, chunk=max(1, len(sub)), extra_doc=extra_doc, timeout=timeout, dfs=dfs,
                                         verdict=verdict, label=label + " (overflow bisect)", cfg_text=cfg_text)
            else:
                ls = [int(x) for x in re.findall(r"/\\ l = (\d+)", res.out)]
                rejected.append((part[0], max(ls) if ls else 1))
            continue
        if not m or int(m.group(1)) != len(part) or res.error or res.violated:
            raise MachineryFailure(f"trace validation run failed for {module}: "
                                   f"violated={res.violated!r} {res.error[:1500]}\n{res.out[-2500:]}")
        for mm in re.finditer(r'<<"REJECT", (\d+), (\d+)>>', res.out):
            t, pos = int(mm.group(1)), int(mm.group(2))
            rejected.append((part[t - 1], pos))
        seen = set()
        for mm in re.finditer(r'<<"BAD", (\d+), (\d+)>>', res.out):
            t, pos = int(mm.group(1)), int(mm.group(2))
            if (t, pos) not in seen:
                seen.add((t, pos))
                rejected.append((part[t - 1], -pos))   # negative position: judged event, walk continued
        if verdict is not None:
            verdict.add_tlc(res, f"trace-validation {module} {label} [{i}:{i + len(part)}]")
        f.unlink(missing_ok=True)
    return rejected


def validate_total(module: str, traces: list[dict], on_reject, *, verdict=None, label: str = "",
                   max_rounds: int = 12, **kw) -> int:
    """Total verdicts: every event of every trace is judged.  on_reject(trace, pos) records the
    violation and returns the remainder trace to re-validate (or None).  Remainders of one round are
    validated together in the next round (one JVM start per round).  Returns #rejections."""
    n_rej = 0
    todo = traces
    rounds = 0
    while todo and rounds < max_rounds:
        rounds += 1
        rejected = validate(module, todo, verdict=verdict, label=f"{label} round {rounds}", **kw)
        nxt = []
        for tr, pos in rejected:
            n_rej += 1
            rest = on_reject(tr, pos)
            if rest is not None and rest.get("ev"):
                nxt.append(rest)
        todo = nxt
    return n_rej
