"""Build tiny SIGPROC files from integer arrays, independently of sigpyproc's own writer/codec
(struct + numpy only), so that a writer defect cannot mask a reader defect and vice versa."""
from __future__ import annotations

import struct
from pathlib import Path

import numpy as np

KEYS = {
    "signed": "b", "telescope_id": "I", "ibeam": "I", "nbeams": "I", "refdm": "d", "nifs": "I",
    "nchans": "I", "foff": "d", "fch1": "d", "nbits": "I", "tsamp": "d", "tstart": "d",
    "src_dej": "d", "src_raj": "d", "za_start": "d", "az_start": "d", "source_name": "str",
    "rawdatafile": "str", "data_type": "I", "machine_id": "I", "barycentric": "I", "pulsarcentric": "I",
}


def _s(x: str) -> bytes:
    b = x.encode()
    return struct.pack("<I", len(b)) + b


def encode_header(items: list[tuple[str, object]]) -> bytes:
    out = _s("HEADER_START")
    for k, val in items:
        fmt = KEYS[k]
        out += _s(k)
        if fmt == "str":
            out += _s(val)
        else:
            out += struct.pack("<" + fmt, val)
    return out + _s("HEADER_END")


def pack_values(vals: np.ndarray, nbits: int) -> bytes:
    """Encode sample values (flat, time-major, channel fastest) at the given depth the way a
    SIGPROC file stores them.  1-bit is LSB-first, 2- and 4-bit MSB-first (sigproc convention)."""
    vals = np.asarray(vals)
    if nbits == 8:
        return vals.astype("<u1").tobytes()
    if nbits == 16:
        return vals.astype("<u2").tobytes()
    if nbits == 32:
        return vals.astype("<f4").tobytes()
    fact = 8 // nbits
    v = vals.astype(np.int64).reshape(-1, fact)
    out = np.zeros(v.shape[0], dtype=np.int64)
    for j in range(fact):
        sh = j * nbits if nbits == 1 else (fact - 1 - j) * nbits
        out |= (v[:, j] & ((1 << nbits) - 1)) << sh
    return out.astype("<u1").tobytes()


def default_header(nchans: int, nbits: int, *, tsamp=0.001, tstart=50000.0, fch1=1500.0, foff=-1.0,
                   source="verif", extra: dict | None = None) -> list[tuple[str, object]]:
    h = [("telescope_id", 4), ("machine_id", 10), ("data_type", 1), ("rawdatafile", "verif.fil"),
         ("source_name", source), ("barycentric", 0), ("pulsarcentric", 0), ("az_start", 0.0),
         ("za_start", 0.0), ("src_raj", 0.0), ("src_dej", 0.0), ("tstart", float(tstart)),
         ("tsamp", float(tsamp)), ("nbits", int(nbits)), ("fch1", float(fch1)), ("foff", float(foff)),
         ("nchans", int(nchans)), ("nifs", 1), ("refdm", 0.0), ("ibeam", 0), ("nbeams", 1)]
    if extra:
        d = dict(h)
        d.update(extra)
        h = [(k, d[k]) for k, _ in h] + [(k, val) for k, val in extra.items() if k not in dict(h)]
    return h


def write_fil(path: Path, vals: np.ndarray, nchans: int, nbits: int, **hdr) -> int:
    """Write one file; returns header length."""
    h = encode_header(default_header(nchans, nbits, **hdr))
    Path(path).write_bytes(h + pack_values(vals, nbits))
    return len(h)


def write_set(dirpath: Path, base: str, data2d: np.ndarray, nbits: int, split: list[int], longname: bool = False, **hdr) -> list[str]:
    """Write a contiguous multi-file set.  data2d has shape (nsamples, nchans); split gives the number
    of samples per file.  tstart of each file is advanced so that the set is contiguous.  longname: the original file name
    recorded in the header is a full archive path (well over the 80 characters of the original C tools)."""
    n, c = data2d.shape
    assert sum(split) == n
    tsamp = hdr.get("tsamp", 0.001)
    tstart = hdr.get("tstart", 50000.0)
    names = []
    at = 0
    for i, k in enumerate(split):
        p = Path(dirpath) / f"{base}_{i}.fil"
        hh = dict(hdr)
        hh["tstart"] = tstart + at * tsamp / 86400.0
        hh["tsamp"] = tsamp
        # header lengths differ from file to file (rawdatafile is the one key allowed to differ in a set)
        hh.setdefault("extra", {})
        hh["extra"] = dict(hh["extra"], rawdatafile=("/archive/2026/10/01/" + "deep/" * 20 if longname else "") + "scan_" + "9" * (1 + 2 * i) + ".fil")
        write_fil(p, data2d[at:at + k].ravel(), c, nbits, **hh)
        names.append(str(p))
        at += k
    return names


def identity_data(n: int, c: int, nbits: int, rng=None, mode: str = "identity") -> np.ndarray:
    """(n, c) integer sample values representable at the depth.  'identity': value = (t*c+ch) mod 2^nbits
    (injective when n*c <= 2^nbits; at 32 bits always injective); 'random': seeded uniform values."""
    top = 2 ** min(nbits, 16) if nbits < 32 else 2 ** 16
    if mode == "runs" and rng is not None:
        # runs of all-zero samples between runs of non-zero ones (run length 1..3): whole blocks of a gulped read are then zero,
        # which is where a reader that skips "empty" work, or reuses a buffer, shows
        r = int(rng.integers(1, 4))
        a = rng.integers(1, max(2, top), size=(n, c), dtype=np.int64)
        a[(np.arange(n) // r) % 2 == 1] = 0
    elif mode == "identity" or rng is None:
        a = (np.arange(n * c, dtype=np.int64) % top).reshape(n, c)
    else:
        a = rng.integers(0, top, size=(n, c), dtype=np.int64)
    return a


def parse_sigproc(raw: bytes) -> tuple[dict, int]:
    """Independent SIGPROC header parser: returns (ordered dict of key -> value, header length)."""
    def rs(at):
        (n,) = struct.unpack_from("<I", raw, at)
        return raw[at + 4:at + 4 + n].decode("latin-1"), at + 4 + n
    key, at = rs(0)
    if key != "HEADER_START":
        raise ValueError("not a sigproc header")
    out = {}
    while True:
        key, at = rs(at)
        if key == "HEADER_END":
            return out, at
        fmt = KEYS[key]
        if fmt == "str":
            out[key], at = rs(at)
        else:
            (out[key],) = struct.unpack_from("<" + fmt, raw, at)
            at += struct.calcsize("<" + fmt)


def decode_values(data: bytes, nbits: int) -> np.ndarray:
    """Decode a SIGPROC data section at the declared depth (own decoder, numpy only)."""
    if nbits == 8:
        return np.frombuffer(data, dtype="<u1").astype(np.int64)
    if nbits == 16:
        return np.frombuffer(data[: len(data) // 2 * 2], dtype="<u2").astype(np.int64)
    if nbits == 32:
        return np.frombuffer(data[: len(data) // 4 * 4], dtype="<f4").astype(np.float64)
    b = np.frombuffer(data, dtype="<u1").astype(np.int64)
    fact = 8 // nbits
    out = np.zeros((b.size, fact), dtype=np.int64)
    for j in range(fact):
        sh = j * nbits if nbits == 1 else (fact - 1 - j) * nbits
        out[:, j] = (b >> sh) & ((1 << nbits) - 1)
    return out.ravel()
