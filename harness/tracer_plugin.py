"""pytest plugin (external tracer, no repository edits): while the repository's OWN tests run, every
FilReader.read_plan / PFITSReader.read_plan execution is recorded as the scalar skeleton of a C01 trace
(plan arguments, per block: reported count and array length; how it ended).  The harness validates these
traces with Trace_ReadPlan (block contents are not carried: the fixtures are MB-sized), so the plan
structure exercised by the existing tests is checked against the specification at every step.
Enabled only when SIGPYPROC3_VERIF=1 and VERIF_TRACE_OUT is set."""
from __future__ import annotations

import json
import os

_TRACES: list = []


def _wrap(cls):
    orig = cls.read_plan

    def read_plan(self, gulp=16384, start=0, nsamps=None, skipback=0, *a, **kw):
        n_total = int(self.header.nsamples)
        ns = n_total - start if nsamps is None else nsamps
        rec = {"hdr": {"files": [], "nbits": 32, "nchans": int(self.header.nchans), "vals": [], "novals": True, "N": n_total,
                       "gulp": int(gulp), "start": int(start), "nsamps": int(ns), "skip": abs(int(skipback))},
               "ev": [], "cls": cls.__name__, "test": os.environ.get("PYTEST_CURRENT_TEST", "")}
        try:      # C01 quantifies over well-formed streams: a whole number of samples in the data sections
            si = self.header.stream_info
            nbytes = int(si.get_combined("datalen"))
            rec["wellformed"] = (nbytes * 8 == n_total * int(self.header.nchans) * int(self.header.nbits))
        except Exception:  # noqa: BLE001  (PSRFITS: row-structured, always whole samples)
            rec["wellformed"] = True
        ny = 0
        ended = False
        try:
            for n, ii, data in orig(self, gulp, start, nsamps, skipback, *a, **kw):
                rec["ev"].append({"e": "yield", "n": int(n), "ii": int(ii), "alen": int(len(data)), "vals": []})
                ny += 1
                yield n, ii, data
            rec["ev"].append({"e": "done"})
            ended = True
        except ValueError as exc:
            rec["ev"].append({"e": "reject" if ny == 0 else "fail", "exc": "ValueError", "after": ny, "msg": str(exc)[:80]})
            ended = True
            raise
        except GeneratorExit:
            rec["abandoned"] = True      # the consumer stopped early: a prefix of a behaviour
            raise
        except Exception as exc:  # noqa: BLE001
            rec["ev"].append({"e": "fail", "exc": type(exc).__name__, "after": ny, "msg": str(exc)[:80]})
            ended = True
            raise
        finally:
            rec["ended"] = ended
            _TRACES.append(rec)
    cls.read_plan = read_plan


def pytest_configure(config):
    if os.environ.get("SIGPYPROC3_VERIF") != "1" or not os.environ.get("VERIF_TRACE_OUT"):
        return
    from sigpyproc.readers import FilReader, PFITSReader
    _wrap(FilReader)
    _wrap(PFITSReader)


def pytest_sessionfinish(session, exitstatus):
    out = os.environ.get("VERIF_TRACE_OUT")
    if out and os.environ.get("SIGPYPROC3_VERIF") == "1":
        with open(out, "w") as f:
            json.dump(_TRACES, f)
