"""Shared driver for the streaming file-to-file transforms (C07 data, C08 metadata, C20 write log).

One job = one input file set + a list of transform calls.  For every call the worker records
  * the call, its outcome, and for every output file: the bytes on disk AT RETURN (before close/GC),
    parsed with fixtures.parse_sigproc (independent of the library);
  * the write log: FileWriter.write/cwrite wrapped at class level; after each write the file is read
    back, compared with the previous content (append-only? header untouched?), and a copy of the
    bytes is kept for re-opening with the library's own reader.
"""
from __future__ import annotations

import os
from pathlib import Path

import numpy as np

from . import fixtures, pool

Q = 1024
BAND = {"fch1": 8.0, "foff": -1.0, "tsamp": 4.148808}

_log: list | None = None
_content: dict = {}
_installed = False


def _install():
    global _installed
    if _installed:
        return
    from sigpyproc.io.fileio import FileWriter
    ow, oc = FileWriter.write, FileWriter.cwrite

    def after(self, kind):
        if _log is None:
            return
        name = self.files[0]
        try:
            raw = Path(name).read_bytes()
        except OSError:
            raw = b""
        old = _content.get(name, b"")
        _log.append({"file": name, "kind": kind, "size": len(raw), "added": len(raw) - len(old),
                     "prefix_ok": raw[: len(old)] == old, "bytes": raw})
        _content[name] = raw

    def write(self, bo):
        try:
            return ow(self, bo)
        finally:
            after(self, "write")

    def cwrite(self, arr):
        try:
            return oc(self, arr)
        finally:
            after(self, "cwrite")

    FileWriter.write, FileWriter.cwrite = write, cwrite
    _installed = True


def _fx(x, q=Q):
    x = float(x)
    if not np.isfinite(x):
        return 2_000_000_000
    return int(max(-2_000_000_000, min(2_000_000_000, round(x * q))))


def read_output(path, want_q=False):
    """Independent read-back of an output file: header dict, hdrlen, data length, decoded values."""
    raw = Path(path).read_bytes()
    try:
        hd, hl = fixtures.parse_sigproc(raw)
    except Exception as exc:  # noqa: BLE001
        return {"ok": False, "err": f"{type(exc).__name__}", "size": len(raw)}
    nbits, nch = int(hd.get("nbits", 0)), int(hd.get("nchans", 0))
    data = raw[hl:]
    vals = fixtures.decode_values(data, nbits) if nbits in (1, 2, 4, 8, 16, 32) else np.zeros(0)
    isint = bool(np.all(np.isfinite(vals)) and np.all(vals == np.round(vals)) and np.all(np.abs(vals) < 2e9))
    out = {"ok": True, "hdrlen": hl, "datalen": len(data), "nbits": nbits, "nchans": nch, "isint": isint,
           "vals": [int(x) for x in vals] if isint else [], "valsq": [] if isint and not want_q else [_fx(x) for x in vals],
           "hdr": hd}
    return out


def job(spec):
    global _log
    from sigpyproc.readers import FilReader
    _install()
    d = pool.worker_scratch()
    rng = np.random.default_rng(spec["seed"])
    n, c, nbits = spec["N"], spec["C"], spec["nbits"]
    top = {1: 2, 2: 4, 4: 16, 8: 256, 32: 256}[nbits]
    if spec["data"].startswith("dynrange"):
        # 32-bit data of wide dynamic range: every tf x ff tile holds +2^24, -2^24 and small integers, so the exact tile mean is small
        # while a float32 running sum loses the small terms (2^24 + 3 is not a float32)
        _, tf_, ff_ = spec["data"].split(":")
        tf_, ff_ = int(tf_), int(ff_)
        data = rng.integers(1, 10, size=(n, c), dtype=np.int64)
        for t0 in range(0, n - tf_ + 1, tf_):
            for c0 in range(0, c - ff_ + 1, ff_):
                cells = [(t0 + i, c0 + j) for i in range(tf_) for j in range(ff_)]
                if len(cells) >= 3:
                    data[cells[0]] = 2 ** 24
                    data[cells[-1]] = -(2 ** 24)
    elif spec["data"] == "runs":      # runs of all-zero samples (1-3 long) between non-zero ones: whole gulps of zeros
        r = int(rng.integers(1, 4))
        data = rng.integers(1, max(2, top), size=(n, c), dtype=np.int64)
        data[(np.arange(n) // r) % 2 == 1] = 0
    elif spec["data"] == "identity" and nbits == 32:
        # 32-bit samples are floats: negative values and values far beyond one byte are ordinary data there
        data = (np.arange(n * c, dtype=np.int64) * 37 - 3000).reshape(n, c)
    elif spec["data"] == "random" and nbits == 32:
        data = rng.integers(-20000, 20001, size=(n, c), dtype=np.int64)
    elif spec["data"] == "identity":
        data = (np.arange(n * c, dtype=np.int64) % top).reshape(n, c)
    elif spec["data"] == "const":   # every tile mean is exactly an integer: the reduction to the output depth has nothing to round
        data = np.full((n, c), 1 + spec["seed"] % (top - 1) if top > 2 else 1, dtype=np.int64)
    elif spec["data"] == "mid":     # values well inside the range (zero-DM stays representable)
        data = rng.integers(top // 4, max(top // 4 + 2, 3 * top // 4), size=(n, c), dtype=np.int64)
        data = np.minimum(data, top - 1)
    else:
        data = rng.integers(0, top, size=(n, c), dtype=np.int64)
    band = dict(BAND)
    band["fch1"] = float(max(8, c + 4))       # keep every channel frequency >= 5 MHz (the delay law divides by f^2)
    band.update(spec.get("band", {}))
    if band["foff"] < 0 and band["fch1"] + (c - 1) * band["foff"] < 5:
        band["fch1"] = float(5 - (c - 1) * band["foff"])
    names = fixtures.write_set(d, f"tr_{spec['id']}", data, nbits, spec["split"], longname=(spec["id"] % 3 == 0), **band)
    files = [list(open(f, "rb").read()[-(k * c * nbits // 8):]) if k else [] for f, k in zip(names, spec["split"])]
    in_hdr, _ = fixtures.parse_sigproc(open(names[0], "rb").read())
    hdr = {"files": files, "nbits": nbits, "nchans": c, "vals": [int(x) for x in data.ravel()], "N": n}
    recs = []
    # ONE reader object serves the whole job: results must not depend on what the object did before
    # (cached statistics, stream position left by an earlier call, a reused buffer ...)
    fil = FilReader(names)
    for ci, call in enumerate(spec["calls"]):
        op, gulp, start, nsamps = call["op"], call["gulp"], call["start"], call["nsamps"]
        pre = []
        if spec.get("history", True):
            r = int(rng.integers(0, 4))
            if r == 0 and n - nsamps > 0:      # statistics over ANOTHER window of the same length
                o = int(rng.integers(0, n - nsamps + 1))
                fil.compute_stats(gulp=max(1, gulp), start=o, nsamps=nsamps, quiet=True)
                pre.append(["compute_stats", o, nsamps])
            elif r == 1:
                o = int(rng.integers(0, n))
                fil.read_block(o, int(rng.integers(1, n - o + 1)))
                pre.append(["read_block", o])
            elif r == 2:
                fil.bandpass(gulp=int(rng.integers(1, n + 2)), quiet=True)
                pre.append(["bandpass"])
        base = str(d / f"o_{spec['id']}_{ci}")
        for f in d.glob(f"o_{spec['id']}_{ci}*"):
            f.unlink()
        if ci % 3 == 1 and op not in ("extract_chans", "extract_bands"):
            # the output path already holds an older, LONGER result (a re-run under the same name): it is replaced, not patched
            stale = Path(base + (".tim" if op == "to_tim" else ".fil"))
            stale.write_bytes(Path(names[0]).read_bytes() + b"\xa5" * 8192)
            rec_stale = True
        else:
            rec_stale = False
        _log = []
        _content.clear()
        kw = {"gulp": gulp, "start": start, "nsamps": nsamps, "quiet": True}
        if start + nsamps == n and ci % 2 == 0:       # a range that runs to the end: leave nsamps (and a zero start) to their defaults
            kw.pop("nsamps")
            if start == 0:
                kw.pop("start")
        outs = []
        rec = {"op": op, "gulp": gulp, "start": start, "nsamps": nsamps, "params": {k: v for k, v in call.items()
               if k not in ("op", "gulp", "start", "nsamps")}, "del": [0] * c, "pre": pre, "stale_output": rec_stale}
        try:
            if op == "invert":
                outs = [fil.invert_freq(outfile_name=base + ".fil", **kw)]
            elif op == "mask":
                outs = [fil.apply_channel_mask(np.array(call["mask"], dtype=bool), call["value"],
                                               outfile_name=base + ".fil", **kw)]
            elif op == "extract_samps":
                outs = [fil.extract_samps(start, nsamps, outfile_name=base + ".fil", gulp=gulp, quiet=True)]
            elif op == "extract_chans":
                outs = fil.extract_chans(np.array(call["chans"]), outfile_base=base, batch_size=call.get("batch_size", 200), **kw)
            elif op == "extract_bands":
                outs = fil.extract_bands(call["chanstart"], call["nchans"], call["chanpersub"], outfile_base=base,
                                         batch_size=call.get("batch_size", 200), **kw)
            elif op == "downsample":
                outs = [fil.downsample(call["tf"], call["ff"], outfile_name=base + ".fil", **kw)]
            elif op == "subband":
                dels = [int(x) for x in np.atleast_1d(fil.header.get_dmdelays(call["dm"]))]
                rec["del"] = dels
                outs = [fil.subband(call["dm"], call["nsub"], outfile_name=base + ".fil", **kw)]
            elif op == "zerodm":
                outs = [fil.remove_zerodm(outfile_name=base + ".fil", **kw)]
            elif op == "block_to_file":
                outs = [fil.read_block(start, nsamps).to_file(base + ".fil")]
            elif op == "to_tim":
                outs = [fil.collapse(gulp=gulp, start=start, nsamps=nsamps, quiet=True).to_tim(base + ".tim")]
            elif op == "requantize":
                outs = [fil.requantize(call["nbits_out"], outfile_name=base + ".fil", **kw)]
            rec["outcome"] = "ok"
        except ValueError as exc:
            rec["outcome"] = "ValueError"
            rec["msg"] = str(exc)[:100]
        except Exception as exc:  # noqa: BLE001
            rec["outcome"] = f"raise:{type(exc).__name__}"
            rec["msg"] = str(exc)[:100]
        # files on disk at return time (the writer objects may still be open: that is the point)
        at_return = {}
        for w in (_log or []):            # every file the call wrote to, as it is on disk when the call returns
            try:
                at_return[w["file"]] = os.path.getsize(w["file"])
            except OSError:
                at_return[w["file"]] = 0
        rec["outs"] = [read_output(o, want_q=(op in ("downsample", "zerodm"))) for o in outs]
        rec["outnames"] = [os.path.basename(o) for o in outs]
        wl = _log
        _log = None
        # C20 material: per-file write events + what the library's own reader makes of every snapshot
        wfiles = {}
        for w in wl:
            wfiles.setdefault(w["file"], []).append(w)
        rec["writes"] = []
        for fname, evs in wfiles.items():
            fin = Path(fname).read_bytes() if Path(fname).exists() else b""
            lst = []
            for i, w in enumerate(evs):
                snap = {"kind": w["kind"], "size": w["size"], "added": w["added"], "prefix_ok": w["prefix_ok"],
                        "is_prefix_of_final": fin[: len(w["bytes"])] == w["bytes"]}
                lst.append(snap)
            rec["writes"].append({"file": os.path.basename(fname), "events": lst, "final_size": len(fin),
                                  "snapshots": [w["bytes"] for w in evs] if spec.get("keep_snapshots") else []})
        if spec.get("keep_snapshots"):
            import gc
            gc.collect()
            rec["c20"] = [c20_material(d, w, fname, at_return.get(fname)) for fname, w in wfiles.items()]
        rec["in_hdr"] = in_hdr
        recs.append(rec)
    fil._file.close()
    return {"hdr": hdr, "recs": recs, "spec": {k: spec[k] for k in ("N", "C", "nbits", "split", "data", "id")},
            "band": band}


def _reopen(d, raw, tag):
    """What the library's own reader makes of a (possibly truncated) file image."""
    from sigpyproc.readers import FilReader
    p = d / f"snap_{tag}.fil"
    p.write_bytes(raw)
    try:
        f = FilReader(str(p))
        ns = int(f.header.nsamples)
        vals = []
        if ns > 0:
            a = f.read_block(0, ns).data.T.ravel()
            vals = [int(x) for x in a] if np.all(a == np.round(a)) else [-1]
        f._file.close()
        return {"ok": True, "ns": ns, "vals": vals}
    except Exception as exc:  # noqa: BLE001
        return {"ok": False, "ns": -1, "vals": [], "err": type(exc).__name__}
    finally:
        p.unlink(missing_ok=True)


def c20_material(d, evs, fname, size_at_return=None):
    fin = Path(fname).read_bytes() if Path(fname).exists() else b""
    try:
        hd, hl = fixtures.parse_sigproc(fin)
        nbits, nch = int(hd["nbits"]), int(hd["nchans"])
    except Exception:  # noqa: BLE001
        return {"file": os.path.basename(fname), "parse_ok": False}
    fvals = fixtures.decode_values(fin[hl:], nbits)
    isint = bool(np.all(fvals == np.round(fvals)))
    out = {"file": os.path.basename(fname), "parse_ok": True, "hdrlen": hl, "nbits": nbits, "nchans": nch,
           "final_data": list(fin[hl:]), "final_vals": [int(x) for x in fvals] if isint else [],
           "final_isint": isint, "events": [], "truncs": []}
    for i, w in enumerate(evs):
        raw = w["bytes"]
        ro = _reopen(d, raw, f"{os.getpid()}_{i}") if len(raw) >= hl else {"ok": False, "ns": -1, "vals": []}
        out["events"].append({"kind": w["kind"], "size": len(raw), "hdr_same": raw[:hl] == fin[: min(hl, len(raw))]
                              if len(raw) >= hl else raw == fin[: len(raw)],
                              "data": list(raw[hl:]), "ro_ok": ro["ok"], "ro_ns": ro["ns"], "ro_vals": ro["vals"]})
    dl = len(fin) - hl
    cuts = list(range(0, dl + 1)) if dl <= 48 else sorted({0, 1, dl - 1, dl, *[int(x) for x in
                                                          np.random.default_rng(dl).integers(0, dl + 1, 14)]})
    for cut in cuts:
        ro = _reopen(d, fin[: hl + cut], f"{os.getpid()}_t{cut}")
        out["truncs"].append({"cut": cut, "ro_ok": ro["ok"], "ro_ns": ro["ns"], "ro_vals": ro["vals"]})
    # measured on the file itself when the call returned (not inferred from the last intercepted write: a writer may
    # legitimately put bytes on disk through another route)
    out["size_at_return"] = size_at_return if size_at_return is not None else (evs[-1]["size"] if evs else 0)
    out["final_size"] = len(fin)
    return out
