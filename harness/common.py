"""Shared plumbing for every check: environment, scratch space, verdict bookkeeping,
known-findings matching, evidence writing.

Exit codes of ./check:  0 = property held on everything explored (KNOWN-FINDING lines allowed)
                        1 = VIOLATION (a violation not listed in known_findings.json)
                        2 = MACHINERY-FAILURE (model itself failed, TLC/JSON error, self-test failed)
"""
from __future__ import annotations

import atexit
import hashlib
import json
import os
import shutil
import sys
import time
from pathlib import Path

VERIF = Path(__file__).resolve().parent.parent
REPO = Path(os.environ.get("VERIF_REPO", "/repo"))
SPEC = VERIF / "spec"
# runs against a scratch worktree (VERIF_REPO=..., used only to try seeded or property-preserving changes) must not
# overwrite the evidence of /repo
EVIDENCE = VERIF / "evidence" if str(REPO) == "/repo" else VERIF / ".scratch" / "evidence_other_tree"
REPLAYS = EVIDENCE / "replays"
GUARD = "SIGPYPROC3_VERIF"


class MachineryFailure(Exception):
    """Raised for anything that is not a verdict about the code under test."""


def setup_env() -> None:
    """Make the *working tree* of /repo importable and keep numba's cache out of it."""
    repo = str(REPO)
    if repo not in sys.path:
        sys.path.insert(0, repo)
    os.environ["PYTHONPATH"] = repo + os.pathsep + os.environ.get("PYTHONPATH", "")
    os.environ.setdefault("PYTHONHASHSEED", "0")
    os.environ[GUARD] = "1"
    kern = REPO / "sigpyproc" / "core" / "kernels.py"
    sha = hashlib.sha256(kern.read_bytes()).hexdigest()[:16] if kern.exists() else "none"
    cache = VERIF / ".cache" / "numba" / sha
    cache.mkdir(parents=True, exist_ok=True)
    os.environ["NUMBA_CACHE_DIR"] = str(cache)
    os.environ.setdefault("NUMBA_NUM_THREADS", "16")
    os.environ.setdefault("MPLBACKEND", "Agg")


_scratch: Path | None = None


def scratch() -> Path:
    """Per-process scratch directory under /verif/.scratch, removed at exit."""
    global _scratch
    if _scratch is None:
        _scratch = VERIF / ".scratch" / f"{os.getpid()}"
        _scratch.mkdir(parents=True, exist_ok=True)
        keep = os.environ.get("VERIF_KEEP_SCRATCH")
        if not keep:
            atexit.register(shutil.rmtree, str(_scratch), True)
    return _scratch


def seed() -> int:
    try:
        return int(os.environ.get("VERIF_SEED", "0"))
    except ValueError:
        return 0


# --------------------------------------------------------------------------------------------
# Verdict bookkeeping
# --------------------------------------------------------------------------------------------
class Verdict:
    """Collects what a run covered and what it found for one property."""

    def __init__(self, pid: str, tier: str) -> None:
        self.pid = pid
        self.tier = tier
        self.t0 = time.time()
        self.states = 0
        self.transitions = 0
        self.traces = 0  # traces validated against / behaviours replayed into the implementation
        self.evaluations = 0
        self.nontrivial: set = set()
        self.rule = ""
        self.samples: list = []
        self.exhaustive = False
        self.assumptions: list[str] = []
        self.violations: list[dict] = []
        self.notes: list[str] = []
        self.tlc_runs: list[dict] = []
        self.extra: dict = {}

    # -- model side -----------------------------------------------------------------------
    def add_tlc(self, res, label: str) -> None:
        self.states += res.distinct
        self.transitions += res.generated
        self.tlc_runs.append(
            {"label": label, "distinct": res.distinct, "generated": res.generated,
             "wall_s": round(res.wall, 2), "cmd": res.cmd_short},
        )

    # -- implementation side ----------------------------------------------------------------
    def sample(self, obj, cap: int = 4) -> None:
        if len(self.samples) < cap:
            self.samples.append(obj)

    def violation(self, clause: str, site: str, cfg: dict, observed, expected, note: str = "") -> None:
        self.violations.append(
            {"property": self.pid, "clause": clause, "site": site, "cfg": cfg,
             "observed": observed, "expected": expected, "note": note},
        )


def load_findings() -> list[dict]:
    f = VERIF / "known_findings.json"
    if not f.exists():
        return []
    data = json.loads(f.read_text())
    return data.get("findings", [])


def _matches(finding: dict, v: dict) -> bool:
    if finding.get("status", "open") != "open":
        return False  # a fixed entry suppresses nothing
    if finding["property"] != v["property"]:
        return False
    if "clause" in finding and finding["clause"] != v["clause"]:
        return False
    if "site" in finding and finding["site"] != v["site"]:
        return False
    where = finding.get("where")
    if where:
        env = {"__builtins__": {}, "abs": abs, "min": min, "max": max, "len": len,
               "any": any, "all": all, "int": int, "set": set, "sum": sum}
        env.update(v.get("cfg", {}))
        env["cfg"] = v.get("cfg", {})
        env["observed"] = v.get("observed")
        env["expected"] = v.get("expected")
        try:
            return bool(eval(where, env))  # noqa: S307 - predicates come from a committed file
        except Exception:
            return False
    return True


def finish(v: Verdict) -> int:
    """Write evidence, print KNOWN-FINDING / VIOLATION lines, return the exit code."""
    findings = load_findings()
    known: dict[str, int] = {}
    fresh: list[dict] = []
    for viol in v.violations:
        hit = next((f for f in findings if _matches(f, viol)), None)
        if hit is not None:
            known[hit["id"]] = known.get(hit["id"], 0) + 1
        else:
            fresh.append(viol)
    for f in findings:
        if f["id"] in known:
            print(f"KNOWN-FINDING: property={f['property']} {f['id']} {f['what']} "
                  f"(re-observed {known[f['id']]}x)")
    REPLAYS.mkdir(parents=True, exist_ok=True)
    # group fresh violations by (clause, site) so the output stays readable
    groups: dict[tuple, list[dict]] = {}
    for viol in fresh:
        groups.setdefault((viol["clause"], viol["site"]), []).append(viol)
    for (clause, site), items in groups.items():
        h = hashlib.sha1(json.dumps(items[0], sort_keys=True, default=str).encode()).hexdigest()[:10]
        path = REPLAYS / f"{v.pid}_{h}.json"
        path.write_text(json.dumps({"property": v.pid, "clause": clause, "site": site,
                                    "count": len(items), "cases": items[:25]},
                                   indent=1, default=str))
        print(f"VIOLATION property={v.pid} replay={path} clause={clause} site={site} "
              f"count={len(items)} first_cfg={json.dumps(items[0]['cfg'], default=str)[:300]} "
              f"observed={str(items[0]['observed'])[:160]} expected={str(items[0]['expected'])[:160]}")
    cov = {
        "states": int(v.states),
        "transitions": int(v.transitions),
        "traces_validated_against_impl": int(v.traces),
        "samples": v.samples if v.samples else [{"note": "no sample recorded"}],
        "evaluations": int(max(v.evaluations, 1)),
        "distinct_nontrivial": int(len(v.nontrivial)),
        "rule": v.rule,
        "exhaustive": bool(v.exhaustive),
        "tlc_runs": v.tlc_runs,
        "known_findings_reobserved": known,
        "notes": v.notes,
    }
    cov.update(v.extra)
    ev = {
        "property_id": v.pid,
        "tier": v.tier,
        "seed": seed(),
        "level": "model_checking",
        "coverage": cov,
        "assumptions": v.assumptions,
        "wall_s": round(time.time() - v.t0, 2),
        "violations": len(fresh),
    }
    EVIDENCE.mkdir(parents=True, exist_ok=True)
    (EVIDENCE / f"{v.pid}.json").write_text(json.dumps(ev, indent=1, default=str))
    status = "VIOLATED" if fresh else "held"
    print(f"[{v.pid}] {status}: states={v.states} transitions={v.transitions} "
          f"impl_traces={v.traces} evaluations={v.evaluations} "
          f"nontrivial={len(v.nontrivial)} known={sum(known.values())} "
          f"fresh={len(fresh)} wall={ev['wall_s']}s")
    return 1 if fresh else 0


def watched_inputs(fn):
    """numpy arrays a driver closure passes to the library (closure cells holding an ndarray, or an object whose .data is one):
    returned with a copy each, so that the driver can tell whether the call modified its inputs."""
    import numpy as _np
    out = []
    for cell in (getattr(fn, "__closure__", None) or ()):
        try:
            obj = cell.cell_contents
        except ValueError:
            continue
        for cand in (obj, getattr(obj, "_data", None)):
            if isinstance(cand, _np.ndarray):
                out.append((cand, cand.copy()))
    return out


def inputs_intact(watched) -> bool:
    import numpy as _np
    return all(_np.array_equal(a, snap, equal_nan=True) if a.dtype.kind == "f" else _np.array_equal(a, snap) for a, snap in watched)


class CallTimeout(BaseException):
    """a single library call exceeded its time limit (an endless loop in changed code)"""


class time_limited:
    """Context manager (main thread only): raises CallTimeout inside the guarded call after `seconds`.  Python-level loops are
    interrupted; a loop inside compiled code is not - that case is left to the watchdog of ./check."""

    def __init__(self, seconds: float = 30.0):
        self.seconds = seconds
        self.armed = False

    def __enter__(self):
        import signal
        import threading
        if threading.current_thread() is threading.main_thread():
            def _raise(signum, frame):
                raise CallTimeout(f"no return within {self.seconds} s")
            self.old = signal.signal(signal.SIGALRM, _raise)
            signal.setitimer(signal.ITIMER_REAL, self.seconds)
            self.armed = True
        return self

    def __exit__(self, *exc):
        import signal
        if self.armed:
            signal.setitimer(signal.ITIMER_REAL, 0)
            signal.signal(signal.SIGALRM, self.old)
        return False
