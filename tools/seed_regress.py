#!/venv/bin/python
"""usage: seed_regress.py [tier] [ids...]  -- every archived seeded change (seeded/S-Cxx-n) is applied to a scratch worktree of /repo's HEAD
(never to /repo itself), the check of its property is run against that worktree (VERIF_REPO), and the outcome is tabulated.
Worktrees live under /tmp/verif_seedwt_<k> and are removed at the end.  Writes seeded/REGRESSION.json."""
import json
import subprocess
import sys
from concurrent.futures import ThreadPoolExecutor
from pathlib import Path
from queue import Queue

tier = sys.argv[1] if len(sys.argv) > 1 else "quick"
only = set(sys.argv[2:])
seeds = sorted(p for p in Path("/verif/seeded").glob("S-C*-*") if p.is_dir() and (not only or p.name in only))
NW = 5
head = subprocess.run(["git", "-C", "/repo", "rev-parse", "HEAD"], capture_output=True, text=True).stdout.strip()
wts = Queue()
for k in range(NW):
    wt = f"/tmp/verif_seedwt_{k}"
    subprocess.run(["git", "-C", "/repo", "worktree", "remove", "--force", wt], capture_output=True)
    subprocess.run(["git", "-C", "/repo", "worktree", "add", "-q", "--detach", wt, head], check=True, capture_output=True)
    subprocess.run(["cp", "-r", "/repo/sigpyproc.egg-info", wt], capture_output=True)
    wts.put(wt)


def one(sd):
    meta = json.loads((sd / "meta.json").read_text())
    prop = meta["property"]
    checks = [prop] + [c for c in meta.get("also_checks", []) if c != prop]
    patch = sd / ("patch_adapted.diff" if (sd / "patch_adapted.diff").exists() else "patch.diff")
    wt = wts.get()
    try:
        subprocess.run(["git", "-C", wt, "checkout", "-q", "--", "."], check=True)
        a = subprocess.run(["git", "-C", wt, "apply", str(patch)], capture_output=True, text=True)
        if a.returncode:
            return sd.name, {"applied": False, "err": a.stderr[:300]}
        res = {}
        for c in checks:
            p = subprocess.run(["/verif/check", c, "--tier", tier], cwd="/verif", capture_output=True, text=True,
                               env={**__import__("os").environ, "VERIF_REPO": wt})
            lines = [l for l in p.stdout.splitlines() if l.startswith(("VIOLATION", "MACHINERY"))]
            res[c] = {"exit": p.returncode, "clauses": sorted({l.split("clause=")[1].split()[0] for l in lines if "clause=" in l})[:6],
                      "machinery": any(l.startswith("MACHINERY") for l in lines)}
        return sd.name, {"applied": True, "checks": res, "detected": any(r["exit"] == 1 for r in res.values())}
    finally:
        subprocess.run(["git", "-C", wt, "checkout", "-q", "--", "."])
        wts.put(wt)


out = {}
with ThreadPoolExecutor(NW) as ex:
    for name, r in ex.map(one, seeds):
        out[name] = r
        print(name, "DETECTED" if r.get("detected") else ("APPLY-FAILED" if not r.get("applied") else "MISSED"),
              {c: (v["exit"], v["clauses"]) for c, v in r.get("checks", {}).items()}, flush=True)
for k in range(NW):
    subprocess.run(["git", "-C", "/repo", "worktree", "remove", "--force", f"/tmp/verif_seedwt_{k}"], capture_output=True)
prev = {}
rp = Path(__import__("os").environ.get("SEED_REGRESS_OUT", "/verif/seeded/REGRESSION.json"))
if rp.exists() and only:
    prev = json.loads(rp.read_text()).get("results", {})
prev.update(out)
rp.write_text(json.dumps({"head": head, "tier": tier, "results": prev}, indent=1))
n = sum(1 for r in prev.values() if r.get("detected"))
print(f"{n}/{len(prev)} detected")
