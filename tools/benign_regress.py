#!/venv/bin/python
"""usage: benign_regress.py [tier] [ids...]  -- every property-preserving change in /verif/benign is applied to a scratch worktree of
/repo's HEAD (never to /repo), the listed checks are run against that worktree (VERIF_REPO); any exit != 0 that is not listed in
benign/expected_alarms.json is a FALSE ALARM to investigate.  Writes benign/REGRESSION.json."""
import json
import os
import subprocess
import sys
from concurrent.futures import ThreadPoolExecutor
from pathlib import Path
from queue import Queue

tier = sys.argv[1] if len(sys.argv) > 1 else "quick"
only = set(sys.argv[2:])
B = Path("/verif/benign")
items = sorted(p for p in B.glob("C*_*") if p.is_dir() and (not only or p.name in only))
expected = json.loads((B / "expected_alarms.json").read_text())
NW = 5
head = subprocess.run(["git", "-C", "/repo", "rev-parse", "HEAD"], capture_output=True, text=True).stdout.strip()
wts = Queue()
for k in range(NW):
    wt = f"/tmp/verif_benignwt_{k}"
    subprocess.run(["git", "-C", "/repo", "worktree", "remove", "--force", wt], capture_output=True)
    subprocess.run(["git", "-C", "/repo", "worktree", "add", "-q", "--detach", wt, head], check=True, capture_output=True)
    subprocess.run(["cp", "-r", "/repo/sigpyproc.egg-info", wt], capture_output=True)
    wts.put(wt)


def one(d):
    checks = (d / "checks.txt").read_text().split()
    wt = wts.get()
    try:
        subprocess.run(["git", "-C", wt, "checkout", "-q", "--", "."], check=True)
        a = subprocess.run(["git", "-C", wt, "apply", "--3way", str(d / "patch.diff")], capture_output=True, text=True)
        if a.returncode:
            return d.name, {"applied": False, "err": a.stderr[:300]}
        res = {}
        for c in checks:
            p = subprocess.run(["/verif/check", c, "--tier", tier], cwd="/verif", capture_output=True, text=True, env={**os.environ, "VERIF_REPO": wt})
            lines = [l for l in p.stdout.splitlines() if l.startswith(("VIOLATION", "MACHINERY"))]
            res[c] = {"exit": p.returncode, "expected_alarm": c in expected.get(d.name, {}),
                      "clauses": sorted({l.split("clause=")[1].split()[0] + "@" + l.split("site=")[1].split()[0] for l in lines if "clause=" in l})[:6]}
        return d.name, {"applied": True, "checks": res}
    finally:
        subprocess.run(["git", "-C", wt, "reset", "-q", "--hard", head])
        wts.put(wt)


out = {}
bad = 0
with ThreadPoolExecutor(NW) as ex:
    for name, r in ex.map(one, items):
        out[name] = r
        fa = [c for c, v in r.get("checks", {}).items() if v["exit"] != 0 and not v["expected_alarm"]]
        bad += len(fa)
        print(name, "APPLY-FAILED" if not r.get("applied") else ("FALSE-ALARM " + str({c: r["checks"][c]["clauses"] for c in fa}) if fa else "quiet"), flush=True)
for k in range(NW):
    subprocess.run(["git", "-C", "/repo", "worktree", "remove", "--force", f"/tmp/verif_benignwt_{k}"], capture_output=True)
rp = B / "REGRESSION.json"
prev = json.loads(rp.read_text()).get("results", {}) if (rp.exists() and only) else {}
prev.update(out)
rp.write_text(json.dumps({"head": head, "tier": tier, "results": prev}, indent=1))
print(f"unexpected alarms: {bad}")
