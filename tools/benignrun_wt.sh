#!/bin/bash
# usage: benignrun_wt.sh <worktree> <group_dir> [pattern]  -- property-preserving changes run against a scratch worktree (VERIF_REPO)
WT=$1; G=$2; PAT=${3:-C}
for d in $G/${PAT}*_*/; do
  id=$(basename $d); p=${id%%_*}
  also=$(cat $d/also.txt 2>/dev/null)
  [ -f $d/patch.diff ] || continue
  /verif/tools/seedrun_wt.sh $WT $d/patch.diff $p $also
done
