#!/bin/bash
# usage: seed_confirm.sh <worktree> <change_dir>   -- confirms: demo fails with patch, suite passes with patch, demo passes without
WT=$1; CH=$2
cd $WT || exit 2
git checkout -q -- sigpyproc
export PYTHONPATH=$WT:$WT/_seed/_meta
git apply $CH/patch.diff || { echo "APPLY-FAILED"; exit 2; }
/venv/bin/python $CH/demo.py > $CH/confirm_with.log 2>&1; W=$?
/venv/bin/python -m pytest -q -p no:cacheprovider --timeout=900 2>&1 | tail -4 > $CH/confirm_suite.log
git checkout -q -- sigpyproc
/venv/bin/python $CH/demo.py > $CH/confirm_without.log 2>&1; WO=$?
echo "demo_with_exit=$W demo_without_exit=$WO suite: $(tail -1 $CH/confirm_suite.log)"
