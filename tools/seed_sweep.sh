#!/bin/bash
# usage: seed_sweep.sh <seed> [tier]   -- every check at one VERIF_SEED; prints one line per property
cd /verif
for p in C01 C02 C03 C04 C05 C06 C07 C08 C09 C10 C11 C12 C13 C14 C15 C16 C17 C18 C19 C20; do
  out=$(VERIF_SEED=$1 ./check $p --tier ${2:-quick} 2>&1); rc=$?
  echo "seed=$1 $p rc=$rc $(echo "$out" | grep -E '^\[C|MACHINERY' | tail -1 | cut -c1-160)"
  echo "$out" | grep -E '^VIOLATION' | cut -c1-400 | head -2
done
