#!/bin/bash
# usage: run_all.sh quick|thorough  -- runs every check sequentially, prints one line per property
tier=${1:-quick}
cd /verif
for p in C01 C02 C03 C04 C05 C06 C07 C08 C09 C10 C11 C12 C13 C14 C15 C16 C17 C18 C19 C20; do
  s=$(date +%s)
  out=$(./check $p --tier $tier 2>&1); rc=$?
  e=$(date +%s)
  echo "$p rc=$rc $((e-s))s $(echo "$out" | grep -E '^\[C|MACHINERY' | tail -1 | cut -c1-200)"
  echo "$out" | grep -E '^VIOLATION' | cut -c1-300 | head -3
done
