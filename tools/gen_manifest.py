#!/venv/bin/python
"""Regenerate MANIFEST.json from the table below (one source of truth for the interface)."""
import json
from pathlib import Path

V = Path(__file__).resolve().parent.parent
BASE = json.load(open("/root/.vp/BASELINE.json"))

# property id -> (technique, level text, level note, design ref)
CHECKS = {}
NA = {}


def add(pid, technique, text, note, ref):
    CHECKS[pid] = (technique, text, note, ref)


exec(open(V / "tools" / "manifest_table.py").read())  # noqa: S102 - fills CHECKS / NA

props = [json.loads(l)["id"] for l in open(V / "properties.jsonl")]
checks = []
for pid in props:
    if pid not in CHECKS:
        continue
    tech, text, note, ref = CHECKS[pid]
    checks.append({
        "property_id": pid,
        "quick_cmd": f"./check {pid} --tier quick",
        "thorough_cmd": f"./check {pid} --tier thorough",
        "evidence_file": f"/verif/evidence/{pid}.json",
        "replay_cmd_template": f"./check {pid} --replay {{path}}",
        "engine": "tlc+harness",
        "level_claimed": {"category": "model_checking", "text": text, "design_ref": ref},
        "level_note": note,
        "technique": tech,
    })
na = [{"property_id": pid, "reason": NA.get(pid, "check not built yet in this round; see DESIGN.md section 6 for the plan")}
      for pid in props if pid not in CHECKS]
hooks_commits = json.loads((V / "tools" / "hook_commits.json").read_text()) if (V / "tools" / "hook_commits.json").exists() else []
man = {
    "version": 1,
    "setup_cmd": "./check --setup",
    "hooks": {
        "guard": "SIGPYPROC3_VERIF",
        "enable": "no source hooks: the harness wraps FileWriter/FileReader methods at class level inside its own "
                  "process and sets SIGPYPROC3_VERIF=1 only to mark that; /repo is imported from its working tree "
                  "(sys.path), numba cache redirected to /verif/.cache",
        "baseline_off_cmd": BASE["cmd"].replace("<file>", "/tmp/sigpyproc3_baseline.junit.xml"),
        "source_commits": hooks_commits,
        "add_only": True,
    },
    "engines": [
        {"name": "tlc+harness", "path": "/verif/check",
         "serves_properties": [c["property_id"] for c in checks],
         "kind_free_text": "explicit TLA+ specification (spec/*.tla) model-checked with TLC; bound to the code by "
                           "batch trace validation (Trace_*.tla, recorded executions of the real library) and by "
                           "replay of TLC-generated cases/behaviours (Gen_*.tla) into the real library"},
    ],
    "checks": checks,
    "not_applicable": na,
    "notes": "Exit 0 = held (KNOWN-FINDING lines allowed), 1 = VIOLATION, 2 = MACHINERY-FAILURE (no verdict). "
             "known_findings.json lists recorded defects and fix: commits.",
}
(V / "MANIFEST.json").write_text(json.dumps(man, indent=1))
print(f"MANIFEST.json: {len(checks)} checks, {len(na)} not_applicable")
