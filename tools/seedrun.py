#!/venv/bin/python
"""usage: seedrun.py <patch.diff> <Cxx> [<Cyy> ...]  -- apply a seeded change to /repo, run the checks, undo."""
import subprocess
import sys

patch, props = sys.argv[1], sys.argv[2:]
st = subprocess.run(["git", "-C", "/repo", "status", "--porcelain", "--untracked-files=no"], capture_output=True, text=True)
if st.stdout.strip():
    sys.exit("refusing: /repo has uncommitted changes")
r = subprocess.run(["git", "-C", "/repo", "apply", patch], capture_output=True, text=True)
if r.returncode:
    sys.exit(f"patch does not apply: {r.stderr[:500]}")
try:
    for p in props:
        c = subprocess.run(["/verif/check", p, "--tier", "quick"], cwd="/verif", capture_output=True, text=True)
        lines = [l[:400] for l in c.stdout.splitlines() if l.startswith(("VIOLATION", "[C", "MACHINERY", "KNOWN"))]
        print(f"== {p}: exit={c.returncode}")
        for l in lines[:6]:
            print("   ", l)
finally:
    subprocess.run(["git", "-C", "/repo", "reset", "-q", "--hard", "HEAD"], check=True)
