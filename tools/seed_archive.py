#!/venv/bin/python
"""usage: seed_archive.py <change_dir> <seed-id> <detected: yes|no|adapted> <checks run...>
Copies patch.diff, demo.py, meta.json (+ confirm logs) into /verif/seeded/<seed-id>/ and extends meta.json."""
import json
import shutil
import sys
from pathlib import Path

ch, sid, detected, *checks = sys.argv[1:]
ch = Path(ch)
dst = Path("/verif/seeded") / sid
dst.mkdir(parents=True, exist_ok=True)
for f in ("patch.diff", "demo.py", "meta.json", "patch_adapted.diff"):
    if (ch / f).exists():
        shutil.copy(ch / f, dst / f)
meta = json.loads((dst / "meta.json").read_text())
conf = {}
for f in ("confirm_with.log", "confirm_without.log", "confirm_suite.log"):
    if (ch / f).exists():
        conf[f] = (ch / f).read_text()[-400:]
meta["confirmed_by_me"] = conf
meta["checks_run"] = checks
meta["detected"] = detected
(dst / "meta.json").write_text(json.dumps(meta, indent=1))
print("archived", dst)
