#!/venv/bin/python
"""Run the repository's pinned test-suite (guard OFF) and compare with /root/.vp/BASELINE.json:
every test listed in stable_pass must pass.  Exit 0 iff so."""
import json
import os
import subprocess
import sys
import tempfile
import xml.etree.ElementTree as ET

base = json.load(open("/root/.vp/BASELINE.json"))
env = dict(os.environ)
env.pop("SIGPYPROC3_VERIF", None)
with tempfile.TemporaryDirectory(prefix="verif_baseline_") as td:
    x = os.path.join(td, "junit.xml")
    cmd = base["cmd"].replace("<file>", x)
    p = subprocess.run(cmd, shell=True, env=env, capture_output=True, text=True)
    tree = ET.parse(x)
    passed, failed = set(), set()
    for tc in tree.iter("testcase"):
        name = f"{tc.get('classname')}::{tc.get('name')}"
        bad = any(ch.tag in ("failure", "error") for ch in tc)
        skipped = any(ch.tag == "skipped" for ch in tc)
        if bad:
            failed.add(name)
        elif not skipped:
            passed.add(name)
missing = [t for t in base["stable_pass"] if t not in passed]
print(f"stable_pass={len(base['stable_pass'])} passed_now={len(passed)} failed_now={len(failed)} "
      f"stable_not_passing={len(missing)}")
for t in missing[:40]:
    print("  NOT PASSING:", t)
sys.exit(1 if missing else 0)
