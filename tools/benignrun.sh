#!/bin/bash
# usage: benignrun.sh <group_dir> [tier]  -- applies every <group_dir>/Cxx_k/patch.diff (property-preserving change) to /repo in turn,
# runs the check of Cxx (plus extra checks listed in <dir>/also.txt), undoes it.  Any non-zero exit is a false alarm to investigate.
G=$1; TIER=${2:-quick}
for d in $G/C*_*/; do
  id=$(basename $d); p=${id%%_*}
  also=$(cat $d/also.txt 2>/dev/null)
  [ -f $d/patch.diff ] || continue
  if [ -n "$(git -C /repo status --porcelain --untracked-files=no)" ]; then echo "refusing: /repo dirty"; exit 2; fi
  git -C /repo apply $d/patch.diff || { echo "$id APPLY-FAILED"; continue; }
  for c in $p $also; do
    out=$(cd /verif && VERIF_TIER=$TIER ./check $c 2>&1 | grep -E "^(VIOLATION|\[C|MACHINERY|KNOWN)" | cut -c1-600)
    echo "== $id $c ($TIER): $(echo "$out" | tail -1)"
    echo "$out" | grep -E "^(VIOLATION|MACHINERY)" | head -4 | sed 's/^/      /'
  done
  git -C /repo reset -q --hard HEAD
done
