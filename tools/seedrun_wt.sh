#!/bin/bash
# usage: seedrun_wt.sh <worktree> <patch.diff> <Cxx> [<Cyy> ...]   -- like seedrun.py but against a scratch worktree (VERIF_REPO),
# so /repo is never touched and several can run side by side.  Evidence files written by these runs are NOT evidence for /repo.
WT=$1; P=$2; shift 2
git -C $WT checkout -q -- sigpyproc || exit 2
git -C $WT apply $P || { echo "APPLY-FAILED $P"; exit 2; }
for c in "$@"; do
  out=$(cd /verif && VERIF_REPO=$WT VERIF_TIER=${VERIF_TIER:-quick} ./check $c 2>&1 | grep -E "^(VIOLATION|\[C|MACHINERY|KNOWN)" | cut -c1-500)
  echo "== $(basename $(dirname $P)) $c: $(echo "$out" | tail -1)"
  echo "$out" | grep -E "^(VIOLATION|MACHINERY)" | head -3 | sed 's/^/      /'
done
git -C $WT checkout -q -- sigpyproc
